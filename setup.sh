#!/bin/bash
# setup_cmd: offline, idempotent.  Makes sure hypothesis is importable in /venv and
# installs atheris (cp312 wheel) into /verif/.deps.  Nothing is built from /repo: the
# checks import /repo/src directly on every run.
set -e
HERE="$(cd "$(dirname "${BASH_SOURCE[0]}")" && pwd)"
cd "$HERE"
export PIP_NO_INDEX=1
if ! /venv/bin/python -c "import hypothesis" 2>/dev/null; then
  /venv/bin/pip install --no-index --find-links /opt/veriftools/wheels hypothesis
fi
if ! PYTHONPATH="$HERE/.deps" /venv/bin/python -c "import atheris" 2>/dev/null; then
  /venv/bin/pip install --no-index --find-links /opt/veriftools/wheels --target "$HERE/.deps" atheris || echo "atheris not installed (optional)"
fi
mkdir -p evidence replays
/venv/bin/python -c "import hypothesis, black, pytest; print('setup ok', hypothesis.__version__)"
