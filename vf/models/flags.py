"""Reference model of how a session's flags are resolved, written from docs/pytest.md,
docs/configuration.md, docs/limitations.md and the changelog.  No import from the repository.

resolve(cfg) -> {"kind": "usage_error" | "disabled" | "active",
                 "flags": set of flag words, "approved": set of categories approved up front,
                 "review": bool (prompts for the remaining categories), "reason": str}

cfg keys:
  cli        None | list of flag words given with --inline-snapshot=...
  shortcut   None | name of a shortcut option given on the command line (--fix, --review, user defined)
  env_flags  None | string value of INLINE_SNAPSHOT_DEFAULT_FLAGS
  pyproject  {"default-flags": [...]|None, "default-flags-tui": [...]|None, "shortcuts": {name: [...]}|None}
  tty        bool
  ci         None | name of a CI variable that is set (with "pycharm": PYCHARM_HOSTED is set too)
  pycharm    bool
  xdist      None | int  (-n N)
"""

CATEGORIES = {"create", "fix", "trim", "update"}
MODES = {"report", "review", "short-report", "disable"}
DEFAULT_SHORTCUTS = {"fix": ["create", "fix"], "review": ["review"]}
CI_VARS = ("CI", "bamboo.buildKey", "BUILD_ID", "BUILD_NUMBER", "BUILDKITE", "CIRCLECI",
           "CONTINUOUS_INTEGRATION", "GITHUB_ACTIONS", "HUDSON_URL", "JENKINS_URL", "TEAMCITY_VERSION", "TRAVIS")


def resolve(cfg):
    pp = cfg.get("pyproject") or {}
    shortcuts = pp.get("shortcuts")
    if shortcuts is None:
        shortcuts = DEFAULT_SHORTCUTS
    from_cli = False
    if cfg.get("cli") is not None:
        words = [w for w in cfg["cli"] if w]
        from_cli = True
    elif cfg.get("shortcut") is not None:
        words = list(shortcuts[cfg["shortcut"]])
        from_cli = True
    elif cfg.get("env_flags") is not None:
        words = cfg["env_flags"].split(",")
    else:
        if cfg.get("tty"):
            words = pp.get("default-flags-tui")
            if words is None:
                words = ["create", "review"]
        else:
            words = pp.get("default-flags")
            if words is None:
                words = ["report"]
    flags = set(words)
    xdist = bool(cfg.get("xdist"))
    out = {"flags": flags, "approved": set(), "review": False, "reason": ""}
    if from_cli and xdist and flags - {"disable"}:
        return dict(out, kind="usage_error", reason="flags combined with xdist")
    unknown = flags - CATEGORIES - MODES
    if unknown:
        return dict(out, kind="usage_error", reason=f"unknown flag {sorted(unknown)}")
    if "disable" in flags and flags != {"disable"}:
        return dict(out, kind="usage_error", reason="disable combined with other flags")
    if xdist:
        return dict(out, kind="disabled", reason="xdist")
    if cfg.get("ci") and not cfg.get("pycharm"):
        return dict(out, kind="disabled", reason="ci")
    if "disable" in flags:
        return dict(out, kind="disabled", reason="disable")
    if "short-report" in flags:
        return dict(out, kind="active", reason="short-report approves nothing")
    approved = flags & CATEGORIES
    return dict(out, kind="active", approved=approved, review="review" in flags)
