"""plain O(nm) longest-common-subsequence length, common prefix / suffix (reference model)"""


def lcs_len(a, b, eq=lambda x, y: x == y):
    n, m = len(a), len(b)
    prev = [0] * (m + 1)
    for i in range(1, n + 1):
        cur = [0] * (m + 1)
        for j in range(1, m + 1):
            if eq(a[i - 1], b[j - 1]):
                cur[j] = prev[j - 1] + 1
            else:
                cur[j] = max(prev[j], cur[j - 1])
        prev = cur
    return prev[m]


def common_prefix(a, b, eq=lambda x, y: x == y):
    n = 0
    for x, y in zip(a, b):
        if eq(x, y):
            n += 1
        else:
            break
    return n


def common_suffix(a, b, start=0, eq=lambda x, y: x == y):
    """common suffix of a[start:] and b[start:]"""
    return common_prefix(list(reversed(a[start:])), list(reversed(b[start:])), eq)
