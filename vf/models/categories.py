"""Reference model of the category semantics, written from docs/categories.md,
docs/eq_snapshot.md, docs/cmp_snapshot.md, docs/in_snapshot.md, docs/getitem_snapshot.md.
No import from the repository.

model(op, prev, events, F) -> (categories, new_value)

  op      "eq" | "le" | "ge" | "in" | "getitem"
  prev    previous value or MISSING
  events  simple ops: list of observed values;  getitem: list of (key, subop, value)
  F       approved categories
  categories  subset of {"create","fix","trim"} that must be reported for this site
              ("update" is about source text and is not predicted here)
"""

MISSING = type("MISSING", (), {"__repr__": lambda s: "MISSING"})()


def _contains(seq, x):
    return any(x == y for y in seq)


def model(op, prev, events, F):
    F = set(F)
    if not events:
        return set(), prev
    if op == "eq":
        x = events[0]
        if prev is MISSING:
            return {"create"}, (x if "create" in F else MISSING)
        if not (prev == x):
            return {"fix"}, (x if "fix" in F else prev)
        return set(), prev
    if op in ("le", "ge"):
        # x <= snapshot  -> the snapshot is an upper bound, tightest value max(x)
        m = events[0]
        for x in events[1:]:
            if (op == "le" and x > m) or (op == "ge" and x < m):
                m = x
        if prev is MISSING:
            return {"create"}, (m if "create" in F else MISSING)
        holds = all((x <= prev) if op == "le" else (x >= prev) for x in events)
        if not holds:
            return {"fix"}, (m if "fix" in F else prev)
        if not (prev == m):
            return {"trim"}, (m if "trim" in F else prev)
        return set(), prev
    if op == "in":
        distinct = []
        for x in events:
            if not _contains(distinct, x):
                distinct.append(x)
        if prev is MISSING:
            return {"create"}, (distinct if "create" in F else MISSING)
        missing = [x for x in distinct if not _contains(prev, x)]
        unused = [p for p in prev if not _contains(distinct, p)]
        cats = set()
        if missing:
            cats.add("fix")
        if unused:
            cats.add("trim")
        new = [p for p in prev if ("trim" not in F) or _contains(distinct, p)]
        if "fix" in F:
            new = new + missing
        return cats, new
    if op == "getitem":
        keys = []
        per = {}
        for key, subop, x in events:
            if key not in per:
                keys.append(key)
                per[key] = (subop, [])
            per[key][1].append(x)
        if prev is MISSING:
            cats = {"create"}
            if "create" not in F:
                return cats, MISSING
            new = {}
            for k in keys:
                subop, xs = per[k]
                _c, v = model(subop, MISSING, xs, F)
                new[k] = v
            return cats, new
        cats = set()
        new = {}
        for k, pv in prev.items():
            if k in per and per[k][0] == "access":
                # the key was looked up but its sub-snapshot was never compared: it is in use, nothing changes
                new[k] = pv
            elif k in per:
                subop, xs = per[k]
                c, v = model(subop, pv, xs, F)
                cats |= c
                new[k] = v
            else:
                cats.add("trim")
                if "trim" not in F:
                    new[k] = pv
        for k in keys:
            if k not in prev and per[k][0] != "access":
                cats.add("create")
                if "create" in F:
                    subop, xs = per[k]
                    _c, v = model(subop, MISSING, xs, F)
                    new[k] = v
        return cats, new
    raise ValueError(op)


def holds(op, value, events):
    """do all observed comparisons hold against `value` (the plain-value semantics)?"""
    if value is MISSING:
        return False
    if op == "eq":
        return all(x == value and value == x for x in events)
    if op == "le":
        return all(x <= value for x in events)
    if op == "ge":
        return all(x >= value for x in events)
    if op == "in":
        return all(x in value for x in events)
    if op == "getitem":
        for key, subop, x in events:
            if subop == "access":
                continue
            if key not in value:
                return False
            if not holds(subop, value[key], [x]):
                return False
        return True
    raise ValueError(op)
