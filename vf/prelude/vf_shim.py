"""Harness-side pytest plugin (loaded with `-p vf_shim`): boundary tracing and fault injection for C15.

It patches from outside and is inert unless VF_TRACE or VF_FAULT_PLAN is set.

VF_TRACE=<file>        append one JSON line per boundary call: {"i": n, "name": ..., "phase": ...}
VF_FAULT_PLAN=<n>:<kind>   inject `kind` at the n-th boundary call

Boundaries: black.format_str, subprocess.run of the format-command, reading a test file, ensure_import,
DiscStorage.persist, Path.rename inside the storage, opening a test file for writing, writing to it, closing it
(flush of buffered data), replacing the file, SourceFile.new_code.
"""

import builtins
import json
import os
import pathlib
import subprocess

import pytest

TRACE = os.environ.get("VF_TRACE")
PLAN = os.environ.get("VF_FAULT_PLAN")
ROOT = None
STATE = {"n": 0, "phase": "run", "fired": False}

KINDS = {
    "black.format_str": ["raise", "garbage", "different"],
    "format-command": ["nonzero", "garbage", "different", "oserror", "latin1", "empty", "killed"],
    "read_text": ["oserror"],
    "ensure_import": ["runtime"],
    "persist": ["oserror", "runtime"],
    "rename": ["oserror"],
    "open-w": ["oserror"],
    "write": ["oserror", "partial"],
    "close": ["partial-flush"],
    "new_code": ["runtime"],
    "replace": ["oserror"],
}


def hit(name):
    """returns the fault kind to inject at this call, or None"""
    i = STATE["n"]
    STATE["n"] += 1
    if TRACE:
        with open(TRACE, "a") as f:
            f.write(json.dumps({"i": i, "name": name, "phase": STATE["phase"]}) + "\n")
    if PLAN:
        n, kind = PLAN.split(":")
        if int(n) == i:
            STATE["fired"] = True
            marker = os.environ.get("VF_FIRED")
            if marker:
                with open(marker, "w") as f:
                    f.write(f"{name}:{kind}")
            return kind
    return None


def in_root(path):
    try:
        p = pathlib.Path(path).resolve()
        # test files and temporary files written next to them (".test_x.py.tmp")
        return ROOT is not None and str(p).startswith(str(ROOT)) and (p.suffix == ".py" or ".py." in p.name)
    except Exception:
        return False


def install():
    import black
    import inline_snapshot._external as ext
    import inline_snapshot._rewrite_code as rc
    import inline_snapshot.pytest_plugin as plugin

    # --- black
    orig_format_str = black.format_str

    def format_str(src, *, mode):
        kind = hit("black.format_str")
        if kind == "raise":
            raise black.InvalidInput("injected")
        if kind == "garbage":
            return "def (:\n"
        out = orig_format_str(src, mode=mode)
        if kind == "different":
            return out + "\n# injected trailing comment\n"
        return out

    black.format_str = format_str

    # --- format-command
    orig_run = subprocess.run

    def run(cmd, *a, **kw):
        if kw.get("shell") and isinstance(cmd, str) and "VF_FORMAT" in cmd:
            kind = hit("format-command")
            if kind == "oserror":
                raise OSError(12, "injected: cannot allocate memory")
            if kind == "nonzero":
                return subprocess.CompletedProcess(cmd, 3, b"", b"injected failure")
            if kind == "garbage":
                return subprocess.CompletedProcess(cmd, 0, b"def (:\n", b"")
            if kind == "empty":
                # a command that formats the file on disk and prints nothing
                return subprocess.CompletedProcess(cmd, 0, b"", b"")
            r = orig_run(cmd, *a, **kw)
            if kind == "killed":
                # the formatter is killed by a signal after it wrote a part of its output (a valid prefix)
                import ast as _ast

                lines = r.stdout.decode("utf-8").splitlines(keepends=True)
                part = ""
                for k in range(len(lines) - 1, 0, -1):
                    cand = "".join(lines[:k])
                    try:
                        _ast.parse(cand)
                    except SyntaxError:
                        continue
                    if cand.strip():
                        part = cand
                        break
                return subprocess.CompletedProcess(cmd, -9, part.encode("utf-8"), b"")
            if kind == "different":
                return subprocess.CompletedProcess(cmd, 0, r.stdout + b"\n# injected trailing comment\n", b"")
            if kind == "latin1":
                # a formatter that writes its output in another encoding than utf-8
                out = r.stdout.decode("utf-8").encode("latin-1", "replace")
                return subprocess.CompletedProcess(cmd, 0, out, b"")
            return r
        return orig_run(cmd, *a, **kw)

    subprocess.run = run

    # --- reading test files (only while the session is being finished)
    orig_read_text = pathlib.Path.read_text

    def read_text(self, *a, **kw):
        if STATE["phase"] == "finish" and in_root(self):
            if hit("read_text") == "oserror":
                raise OSError(5, "injected: I/O error")
        return orig_read_text(self, *a, **kw)

    pathlib.Path.read_text = read_text

    # --- ensure_import
    orig_ensure = plugin.ensure_import

    def ensure_import(*a, **kw):
        if hit("ensure_import") == "runtime":
            raise RuntimeError("injected")
        return orig_ensure(*a, **kw)

    plugin.ensure_import = ensure_import

    # --- storage
    orig_persist = ext.DiscStorage.persist

    def persist(self, name):
        kind = hit("persist")
        if kind == "oserror":
            raise OSError(28, "injected: no space left on device")
        if kind == "runtime":
            raise RuntimeError("injected")
        return orig_persist(self, name)

    ext.DiscStorage.persist = persist

    orig_rename = pathlib.Path.rename

    def rename(self, target):
        if "-new" in self.name:
            if hit("rename") == "oserror":
                raise OSError(13, "injected: permission denied")
        return orig_rename(self, target)

    pathlib.Path.rename = rename

    # --- writing test files
    orig_open = builtins.open

    class FaultyFile:
        def __init__(self, f):
            self._f = f

        def write(self, data):
            kind = hit("write")
            if kind == "oserror":
                raise OSError(28, "injected: no space left on device")
            if kind == "partial":
                self._f.write(data[: max(1, len(data) // 2)])
                self._f.flush()
                raise OSError(28, "injected: no space left on device")
            return self._f.write(data)

        def __enter__(self):
            self._f.__enter__()
            return self

        def __exit__(self, *a):
            if a and a[0] is None and hit("close") == "partial-flush":
                # the buffered data reaches the disk when the file is closed: only a part of it fits
                self._f.flush()
                size = self._f.tell()
                self._f.truncate(max(1, size // 2))
                self._f.__exit__(None, None, None)
                raise OSError(28, "injected: no space left on device (at close)")
            return self._f.__exit__(*a)

        def __getattr__(self, name):
            return getattr(self._f, name)

    def open_(file, mode="r", *a, **kw):
        if isinstance(mode, str) and ("w" in mode or "a" in mode or "+" in mode) and STATE["phase"] == "finish" \
                and isinstance(file, (str, os.PathLike)) and in_root(file):
            if hit("open-w") == "oserror":
                raise OSError(13, "injected: permission denied")
            return FaultyFile(orig_open(file, mode, *a, **kw))
        return orig_open(file, mode, *a, **kw)

    builtins.open = open_

    # writers which go through a temporary file: the final replace is a boundary too
    orig_replace = os.replace

    def replace(src, dst, *a, **kw):
        if STATE["phase"] == "finish" and in_root(dst):
            if hit("replace") == "oserror":
                raise OSError(13, "injected: permission denied")
        return orig_replace(src, dst, *a, **kw)

    os.replace = replace

    # --- new_code
    orig_new_code = rc.SourceFile.new_code

    def new_code(self):
        if STATE["phase"] == "finish" and hit("new_code") == "runtime":
            raise RuntimeError("injected")
        return orig_new_code(self)

    rc.SourceFile.new_code = new_code


def pytest_configure(config):
    global ROOT
    ROOT = pathlib.Path(str(config.rootpath)).resolve()
    if TRACE or PLAN:
        install()


@pytest.hookimpl(tryfirst=True)
def pytest_sessionfinish(session, exitstatus):
    STATE["phase"] = "finish"
