"""Stand-in for `inline_snapshot` used by the harness when it evaluates a rewritten module
without the library: snapshot(x) is x, snapshot() is the MISSING marker."""
from inline_snapshot import HasRepr, external, outsource  # noqa: F401


def Is(v):
    return v


class _Missing:
    def __repr__(self):
        return "MISSING"

    def __eq__(self, other):
        return False

    def _f(self, *a):
        return False

    __le__ = __ge__ = __lt__ = __gt__ = __contains__ = _f

    def __getitem__(self, k):
        return self


MISSING_ARG = _Missing()


def snapshot(*args):
    return args[0] if args else MISSING_ARG
