"""Type prelude shared by generated test modules (``from vf_prelude import *``) and by the
harness, so both sides hold the same class objects."""

from collections import Counter, OrderedDict, defaultdict, namedtuple
from dataclasses import InitVar, dataclass, field
from enum import Enum, Flag, IntEnum, IntFlag
from decimal import Decimal
from math import inf, nan
import threading
from typing import Any, NamedTuple

import attrs
from pydantic import BaseModel, Field


class Color(Enum):
    RED = 1
    GREEN = 2
    BLUE = "b"
    CRIMSON = 1  # alias of RED


class Level(IntEnum):
    LOW = 1
    HIGH = 2


class Perm(Flag):
    R = 1
    W = 2
    X = 4


class IPerm(IntFlag):
    """12 = R | an unnamed bit"""

    R = 4
    W = 2


class Outer:
    class Inner(Enum):
        A = "a"
        B = "b"

    @dataclass
    class Cfg:
        n: int = 0


@dataclass
class Point:
    x: Any
    y: Any = 0


@dataclass
class SubPoint(Point):
    """a subclass with the same fields: never equal to a Point"""


@dataclass
class Point3(Point):
    """a subclass with one more field"""

    z: Any = 0


@dataclass(frozen=True)
class FPoint:
    x: Any
    y: Any = 0


@dataclass
class Box:
    items: Any = field(default_factory=list)
    name: Any = "box"
    meta: Any = field(default_factory=dict)
    hidden: int = field(default=0, repr=False, compare=False)


@attrs.define
class APoint:
    a: Any
    b: Any = attrs.Factory(list)
    c: Any = 5


@attrs.frozen
class AFrozen:
    k: Any
    v: Any = None


class PModel(BaseModel):
    n: Any
    tags: Any = Field(default_factory=list)
    opt: Any = None


@attrs.define
class APriv:
    """private attribute: the __init__ argument is `x`, the attribute `_x`"""

    _x: Any
    y: Any = 2


class PAlias(BaseModel):
    """field with an alias: has to be initialized with `n`"""

    name: Any = Field(alias="n")
    other: Any = 3


@dataclass
class Hidden:
    """a compared field that repr() hides"""

    a: Any
    b: Any = field(default=3, repr=False)


@attrs.define
class AHidden:
    a: Any
    b: Any = attrs.field(default=3, repr=False)


class PHidden(BaseModel):
    a: Any
    b: Any = Field(default=3, repr=False)


class PExtra(BaseModel, extra="allow"):
    """`zz` is no declared field"""

    a: Any


@dataclass
class IVar:
    """an init-only pseudo-field: `scale` is consumed by __post_init__ and is no attribute of the instance"""

    a: Any
    scale: InitVar[Any] = 1

    def __post_init__(self, scale):
        self.a = self.a * scale


@dataclass
class DInit:
    a: Any
    b: Any = field(init=False, default=5)


def make_dinit(a, b):
    d = DInit(a)
    d.b = b
    return d


NT = namedtuple("NT", "a b", defaults=[0])


class TNT(NamedTuple):
    p: Any
    q: Any = "q"


class Opaque:
    """repr is not python code -> recorded through HasRepr"""

    def __init__(self, n):
        self.n = n

    def __repr__(self):
        return f"<Opaque {self.n}>"

    def __eq__(self, other):
        if not isinstance(other, Opaque):
            return NotImplemented
        return self.n == other.n

    def __hash__(self):
        return hash(("Opaque", self.n))


class MyList(list):
    """a list subclass (its repr is the one of a list)"""


class MySet(set):
    """a set subclass"""


class MyFrozen(frozenset):
    """a frozenset subclass"""


@dataclass
class Holder:
    """fields whose defaults are containers / constructor calls themselves"""

    t: Any = (0, 0)
    lst: Any = field(default_factory=lambda: [0])
    pt: Any = field(default_factory=lambda: Point(x=0, y=0))
    n: Any = 1


NHolder = namedtuple("NHolder", "t n", defaults=[(0, 0), 1])


@dataclass
class HFirst:
    """a field that is no constructor argument in front of the others"""

    h: Any = field(init=False, repr=False, compare=False, default=0)
    name: Any = "n"
    n: Any = 0


class Vec:
    """plain class whose __repr__ is code and uses repr() for its children"""

    def __init__(self, *xs):
        self.xs = list(xs)

    def __repr__(self):
        return "Vec(" + ", ".join(repr(x) for x in self.xs) + ")"

    def __eq__(self, other):
        if not isinstance(other, Vec):
            return NotImplemented
        return self.xs == other.xs


class IdentityEq:
    """equal only to itself: a deep copy is never equal to the original"""

    def __init__(self, n):
        self.n = n

    def __repr__(self):
        return f"IdentityEq({self.n!r})"


class LossyCopy:
    """__deepcopy__ returns a different value"""

    def __init__(self, n):
        self.n = n

    def __eq__(self, other):
        if not isinstance(other, LossyCopy):
            return NotImplemented
        return self.n == other.n

    def __deepcopy__(self, memo):
        return LossyCopy(self.n + 1)

    def __repr__(self):
        return f"LossyCopy({self.n!r})"


class RaisingEq:
    """equal to other RaisingEq objects, raises when it is compared with anything else"""

    def __init__(self, n=0):
        self.n = n

    def __eq__(self, other):
        if isinstance(other, RaisingEq):
            return True
        raise RuntimeError("eq")

    __hash__ = None

    def __repr__(self):
        return f"RaisingEq({self.n!r})"


@dataclass
class Locky:
    """cannot be deep-copied (it holds a lock that takes no part in repr / ==), but has a mutable part"""

    items: Any
    lock: Any = field(default_factory=threading.Lock, repr=False, compare=False)


class SelfCopy:
    """__deepcopy__ returns the object itself, but the object is not even equal to itself (like float nan)"""

    def __init__(self, n):
        self.n = n

    def __eq__(self, other):
        if not isinstance(other, SelfCopy):
            return NotImplemented
        return False

    __hash__ = None

    def __deepcopy__(self, memo):
        return self

    def __repr__(self):
        return f"SelfCopy({self.n!r})"


def mutate_in_place(v, depth=0):
    """harness helper: changes the first mutable container found inside v (used to mutate an observed
    value *after* it was compared); returns True if something was changed"""
    if depth > 4:
        return False
    if isinstance(v, list):
        v.append(424242)
        return True
    if isinstance(v, dict) and not isinstance(v, defaultdict):
        v["__mutated__"] = 424242
        return True
    if isinstance(v, set):
        v.add(424242)
        return True
    if isinstance(v, tuple):
        return any(mutate_in_place(x, depth + 1) for x in v)
    for name in ("x", "y", "items", "meta", "a", "b", "xs", "tags"):
        if hasattr(v, name) and not isinstance(v, type):
            try:
                if mutate_in_place(getattr(v, name), depth + 1):
                    return True
            except Exception:
                pass
    return False


__all__ = [
    "IdentityEq", "LossyCopy", "SelfCopy", "RaisingEq", "MyList", "Locky", "MySet", "MyFrozen", "HFirst", "Holder", "NHolder", "Decimal", "nan", "mutate_in_place", "APriv", "PAlias", "DInit", "make_dinit",
    "Color", "Level", "Perm", "Outer", "Point", "FPoint", "Box", "APoint", "AFrozen",
    "PModel", "NT", "TNT", "Opaque", "Vec", "defaultdict", "inf", "Hidden", "AHidden", "PHidden", "PExtra", "IVar", "SubPoint", "Point3", "IPerm", "OrderedDict", "Counter",
]
