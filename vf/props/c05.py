"""C05 - each category means what the documentation says."""

from __future__ import annotations

import ast

from hypothesis import strategies as st

from .. import drivers, gen_programs as gp, gen_render as gr, gen_values as gv, oracles
from ..models.categories import MISSING, holds, model
from ..runner import HypArm, Violation

ID = "C05"
LEVEL = "exploration"
RULE = (
    "model_noisy: programs of 1-3 sites in *recording* style (LOG.append(x == s), so the observation "
    "sequence does not depend on what comparisons answer) with a noisy previous value or none, loops and "
    "module-level sites shared by two tests, all five operations; one in-process session with a drawn "
    "approved subset F of the 16; an independent reference model written from docs/categories.md predicts "
    "per site the reported categories among create/fix/trim and the value afterwards; both are compared "
    "(values by ==, `in` lists as multisets), create+fix approved => every observed comparison holds on the "
    "plain value, and any site whose pending categories are not approved keeps its value (in particular an "
    "update-only run never changes a value). tool_generated: session 1 creates all values, the harness then "
    "edits the *observations* and runs session 2 with F: same model checks and `update` must not be "
    "reported at all, because the text was written by the tool itself. non-trivial = a site with previous "
    "value and >= 2 observations, or F a proper non-empty subset while >= 2 categories are pending."
)
ASSUMPTIONS = [
    "recording bodies; bound operations over totally ordered families; no user-controlled parts",
    "previous texts with positional constructor arguments are excluded (known finding F14)",
]

ALL = ["create", "fix", "trim", "update"]


def flag_sets():
    """uniform over the 16 subsets (st.lists would favour the empty and small subsets)"""
    import itertools

    subsets = [sorted(c) for n in range(5) for c in itertools.combinations(ALL, n)]
    return st.sampled_from(subsets)


def has_positional_call(text):
    try:
        tree = ast.parse(text, mode="eval")
    except Exception:
        return False
    for n in ast.walk(tree):
        if isinstance(n, ast.Call) and n.args:
            f = n.func
            name = f.id if isinstance(f, ast.Name) else (f.attr if isinstance(f, ast.Attribute) else None)
            if name in ("Point", "FPoint", "Box", "APoint", "AFrozen", "NT", "TNT", "Cfg", "PModel", "APriv", "PAlias", "Hidden", "AHidden", "PHidden",
                        "PExtra", "SubPoint", "Point3", "HFirst"):
                return True
    return False


def _ddict_factories(d):
    return [x[1] for x in gv.walk(d) if x[0] == "ddict"] + [
        "list" for x in gv.walk(d) if x[0] == "raw" and x[1].startswith("defaultdict(list")]


def signature(case):
    sigs = set()
    for s in case["prog"]["sites"]:
        if s.get("prev") and has_positional_call(s["prev"]):
            sigs.add("positional-call-args")
        pd = s.get("prev_desc")
        if pd is not None:
            new_f = []
            for e in s["events"]:
                new_f += _ddict_factories(e[2] if s["op"] == "getitem" else e)
            old_f = _ddict_factories(pd)
            if old_f and new_f and set(old_f) != set(new_f):
                sigs.add("defaultdict-factory-differs")
    return sigs


def _strategy(tier):
    return st.builds(
        lambda p, F: {"prog": p, "F": F},
        gp.program_with_prev(tier, max_sites=3, styles=("record",), p_missing=0.2),
        flag_sets(),
    )


def multiset_eq(a, b):
    b = list(b)
    for x in a:
        for i, y in enumerate(b):
            if x == y:
                del b[i]
                break
        else:
            return False
    return not b


def value_matches(op, got, want, events=None):
    if want is MISSING:
        return got is MISSING
    if got is MISSING:
        return False
    if op == "in":
        return isinstance(got, list) and multiset_eq(got, want)
    if op == "getitem":
        if not isinstance(got, dict) or set(got.keys()) != set(want.keys()):
            return False
        subops = {}
        for k, so, _x in events:
            subops.setdefault(k, so)
        for k in want:
            so = subops.get(k, "eq")
            if not value_matches(so, got[k], want[k]):
                return False
        return True
    return got == want and want == got


def site_flags(ses, text_before, order):
    """map reported flags to site indices through the line/col of the snapshot call"""
    tree = ast.parse(text_before)
    calls = oracles.snapshot_calls(tree)
    pos_to_index = {(c.lineno, c.col_offset): order[k] for k, c in enumerate(calls)}
    out = {i: set() for i in order}
    for pos, flags in ses.per_site:
        if pos in pos_to_index:
            out[pos_to_index[pos]] |= flags
        else:
            raise Violation("unknown-site", f"snapshot reported at {pos} which is no outermost call\n{text_before}")
    return out


def run_and_check(prog, F, src, order, prev_values, *, forbid_update=False, label=""):
    ses = drivers.run_inline({"test_a.py": src}, set(F))
    if not ses.ok():
        err = ses.exec_error or ses.collect_error or ses.apply_error
        tb = getattr(ses, "apply_tb", "") or getattr(ses, "collect_tb", "")
        raise Violation("session-exception:" + type(err).__name__,
                        f"{label} F={F} {type(err).__name__}: {err}\n{tb[-600:]}\n{src}")
    for name, exc in ses.test_results.items():
        if exc is not None:
            raise Violation("recording-test-raised:" + type(exc).__name__,
                            f"{label} F={F} {name}: {type(exc).__name__}: {exc}\n{src}")
    new = ses.files_after["test_a.py"]
    try:
        text = new.decode("utf-8")
        ast.parse(text)
    except Exception as e:
        raise Violation("unparsable", f"{label} F={F} {type(e).__name__}: {e}\n--- before\n{src}\n--- after\n{new!r}")
    flags = site_flags(ses, src, order)
    update_on_tool_text = []
    g, _results, exec_error = drivers.run_disabled({"test_a.py": drivers.stub_source(new)},
                                                   test_prefix="never")
    if exec_error is not None:
        raise Violation("disabled-exec-error", f"{label} F={F} {type(exec_error).__name__}: {exec_error}\n--- before\n{src}\n--- after\n{text}")
    r = oracles.eval_site_args(text, g["test_a.py"])
    if len(r) != len(order):
        raise Violation("site-count", f"{label} {len(r)} != {len(order)}\n{text}")
    ev = gp.exec_events(prog)
    pending_total = set()
    got_values = {}
    for pos, i in enumerate(order):
        s = prog["sites"][i]
        events = gp.build_events(s["op"], ev[i])
        prev = prev_values[i]
        cats, want = model(s["op"], prev, events, F)
        pending_total |= cats
        rep = flags[i]
        if forbid_update and "update" in rep:
            update_on_tool_text.append(i)
        if rep & {"create", "fix", "trim"} != cats:
            raise Violation(f"categories:{s['op']}",
                            f"{label} F={F} site {i} op={s['op']} prev={prev!r} events={events!r}: reported "
                            f"{sorted(rep)} model {sorted(cats)}\n--- before\n{src}")
        kind, w = r[pos]
        got = MISSING if kind == "empty" else w
        if kind == "error":
            raise Violation("site-unreadable", f"{label} F={F} site {i}: {type(w).__name__}: {w}\n--- before\n{src}\n--- after\n{text}")
        got_values[i] = got
        if not value_matches(s["op"], got, want, events):
            raise Violation(f"value:{s['op']}",
                            f"{label} F={F} site {i} op={s['op']} prev={prev!r} events={events!r}: value after "
                            f"{got!r}, model {want!r}\n--- before\n{src}\n--- after\n{text}")
        if {"create", "fix"} <= set(F) and events and not holds(s["op"], got, events):
            raise Violation("fix-does-not-hold", f"{label} site {i}\n--- before\n{src}\n--- after\n{text}")
    ses.update_on_tool_text = update_on_tool_text
    return ses, text, pending_total, got_values


def check_noisy(case):
    prog, F = case["prog"], case["F"]
    src, order = gp.render_program(prog)
    prev_values = {i: gp.prev_value(s) for i, s in enumerate(prog["sites"])}
    ses, text, pending, _ = run_and_check(prog, F, src, order, prev_values, label="noisy")
    nt = any(s.get("prev_desc") is not None and len(s["events"]) >= 2 for s in prog["sites"]) or (
        0 < len(F) < 4 and len(pending) >= 2)
    classes = ["F=" + ",".join(F)] + ["pending:" + c for c in pending] + [s["op"] for s in prog["sites"]]
    return {"nontrivial": nt, "classes": classes,
            "sample": {"F": F, "before": src, "after": text}}


# -------------------------------------------------------------------- tool generated arm


@st.composite
def _tool_case(draw, tier):
    prog = draw(gp.program(tier, max_sites=3, styles=("record",), max_leaves=6))
    # second observation script: per site mutate the events
    prog2_sites = []
    for s in prog["sites"]:
        s2 = dict(s)
        if s["op"] == "eq":
            if draw(st.booleans()):
                nv = draw(gr.mutate(s["events"][0], tier))
                if not gv.sound(nv):
                    nv = s["events"][0]
                s2["events"] = [nv] * len(s["events"])
        elif s["op"] in ("le", "ge"):
            evs = list(s["events"])
            c = draw(st.integers(0, 3))
            if c == 0 and len(evs) > 1:
                evs.pop(draw(st.integers(0, len(evs) - 1)))
            elif c == 1:
                evs.append(gp._shift(draw, evs))
            elif c == 2:
                evs = [gp._shift(draw, evs)]
            s2["events"] = evs
        elif s["op"] == "in":
            evs = [e for e in s["events"] if draw(st.integers(0, 3)) > 0]
            evs += draw(st.lists(gv.hashable_leaves(tier), max_size=2))
            if not evs:
                evs = list(s["events"])
            s2["events"] = evs
        else:
            evs = [e for e in s["events"] if draw(st.integers(0, 4)) > 0]
            extra_key = draw(st.integers(20, 22).map(lambda i: ["int", i]))
            if draw(st.booleans()):
                evs.append([extra_key, "eq", draw(gv.hashable_leaves(tier))])
            # change some values
            out = []
            for k, so, x in evs:
                if so == "eq" and draw(st.integers(0, 3)) == 0:
                    x2 = draw(gv.hashable_leaves(tier))
                    out.append([k, so, x2])
                else:
                    out.append([k, so, x])
            # eq sub-sites must see one value per key
            seen = {}
            final = []
            for k, so, x in out:
                kk = repr(k)
                if so == "eq":
                    if kk in seen:
                        x = seen[kk]
                    seen[kk] = x
                final.append([k, so, x])
            if not final:
                final = list(s["events"])
            s2["events"] = final
        prog2_sites.append(s2)
    return {"prog": prog, "sites2": prog2_sites, "F": draw(flag_sets())}


def check_tool(case):
    prog, F = case["prog"], case["F"]
    src1, order = gp.render_program(prog)
    ses1 = drivers.run_inline({"test_a.py": src1}, {"create"})
    if not ses1.ok():
        err = ses1.exec_error or ses1.collect_error or ses1.apply_error
        raise Violation("session1-exception", f"{type(err).__name__}: {err}\n{src1}")
    text1 = ses1.files_after["test_a.py"].decode("utf-8")
    texts = oracles.site_arg_texts(text1)
    g, _r, exec_error = drivers.run_disabled({"test_a.py": drivers.stub_source(text1)},
                                             test_prefix="never")
    if exec_error is not None:
        raise Violation("session1-unreadable", f"{exec_error}\n{text1}")
    vals = oracles.eval_site_args(text1, g["test_a.py"])
    prog2 = {"sites": [], "tests": prog["tests"]}
    prev_values = {}
    for pos, i in enumerate(order):
        pass
    site_text = {i: texts[pos] for pos, i in enumerate(order)}
    site_val = {i: vals[pos] for pos, i in enumerate(order)}
    for i, s2 in enumerate(case["sites2"]):
        s2 = dict(s2)
        if i in site_text and site_val[i][0] == "value":
            s2["prev"] = site_text[i]
            prev_values[i] = site_val[i][1]
        else:
            s2["prev"] = None
            prev_values[i] = MISSING
        prog2["sites"].append(s2)
    src2, order2 = gp.render_program(prog2)
    ses, text, pending, _ = run_and_check(prog2, F, src2, order2, prev_values, forbid_update=True,
                                          label="tool")
    nt = any(len(s["events"]) >= 2 for s in prog2["sites"]) or (0 < len(F) < 4 and len(pending) >= 2)
    classes = ["F=" + ",".join(F)] + ["pending:" + c for c in pending]
    if ses.update_on_tool_text:
        classes.append("update-reported-on-tool-written-text")
    return {"nontrivial": nt, "classes": classes,
            "sample": {"F": F, "session1": text1, "session2_before": src2, "session2_after": text}}


ARMS = [
    HypArm("model_noisy", _strategy, check_noisy, signature=signature,
           budget={"quick": 1200, "thorough": 80000}),
    HypArm("tool_generated", lambda tier: _tool_case(tier), check_tool,
           budget={"quick": 600, "thorough": 40000}),
]
