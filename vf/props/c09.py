"""C09 - the order in which categories are approved does not matter."""

from __future__ import annotations

import ast
import itertools

from hypothesis import strategies as st

from .. import drivers, gen_programs as gp, gen_values as gv
from ..runner import HypArm, Violation
from .c05 import signature as positional_signature

ID = "C09"
LEVEL = "exploration"
RULE = (
    "programs of 1-4 sites in recording style (the observation sequence must not depend on what "
    "comparisons answer, otherwise a trim-only run of an aborting test legitimately observes less) with "
    "noisy previous texts, so that create/fix/trim/update changes are pending, often inside one "
    "container or one site (fix+trim in an `in` list, create+trim in a sub-snapshot dict, update next to "
    "fix); a no-flag run determines the pending categories k; for *every* permutation of them (k! <= 24) "
    "one session per category is run in that order from a pristine copy, plus the all-at-once session; "
    "ast.dump(ast.parse(final file)) must be identical across all of them. Exhaustive over orders for each "
    "generated program. non-trivial = k >= 2 and at least one site with two pending categories. "
    "Arm orders_mixed: one container mixing managed elements with inner snapshots, Is() and f-strings (the "
    "generator of C10), all orders. Arm orders_assert: the same with plain `assert` bodies (create, fix and update make a failing "
    "comparison succeed so that the rest of the test is still observed; orders which run trim before a "
    "pending fix/create are left out because a trim-only run legitimately stops at the failing assert)."
)
ASSUMPTIONS = [
    "recording bodies; deterministic tests; each session in a fresh directory",
    "previous texts with positional constructor arguments excluded (known finding F14 makes `fix` pending on equal values)",
]


def _strategy(tier):
    return gp.program_with_prev(tier, max_sites=4, min_sites=2, styles=("record",), p_missing=0.25,
                                ops=("eq", "in", "getitem", "le", "ge", "in", "getitem")).map(
        lambda p: {"prog": p})


def _run(src_bytes, F, label, src0):
    ses = drivers.run_inline({"test_a.py": src_bytes}, set(F))
    if not ses.ok():
        err = ses.exec_error or ses.collect_error or ses.apply_error
        tb = getattr(ses, "apply_tb", "") or getattr(ses, "collect_tb", "")
        raise Violation(f"session-exception:{type(err).__name__}",
                        f"{label} F={F} {type(err).__name__}: {err}\n{tb[-600:]}\n--- original\n{src0}\n--- input of this run\n{src_bytes.decode()}")
    return ses


def _dump(b, label, src0):
    try:
        return ast.dump(ast.parse(b.decode("utf-8")))
    except Exception as e:
        raise Violation("unparsable", f"{label}: {e}\n--- original\n{src0}\n--- result\n{b.decode('utf-8', 'replace')}")


def _as_record(prog):
    import copy

    q = copy.deepcopy(prog)
    for s in q["sites"]:
        s["style"] = "record"
    return q


def check(case, asserting=False):
    prog = case["prog"]
    src, order = gp.render_program(prog)
    b0 = src.encode()
    # the pending categories are determined on the recording twin: without flags an asserting body stops at
    # its first failing comparison
    probe = _run(gp.render_program(_as_record(prog))[0].encode() if asserting else b0, (), "probe", src)
    pending = sorted(probe.reported)
    multi = any(len(flags) >= 2 for _pos, flags in probe.per_site)
    if len(pending) < 2:
        return {"nontrivial": False, "classes": [f"k={len(pending)}"]}
    allatonce = _run(b0, pending, "all-at-once", src).files_after["test_a.py"]
    ref = _dump(allatonce, "all-at-once", src)
    n_runs = 1
    for perm in itertools.permutations(pending):
        if asserting and "trim" in perm and any(c in perm[perm.index("trim"):] for c in ("fix", "create")):
            # a trim-only run does not make failing comparisons succeed: the test stops there and observes less
            continue
        cur = b0
        for cat in perm:
            cur = _run(cur, [cat], f"order {perm} step {cat}", src).files_after["test_a.py"]
            n_runs += 1
        d = _dump(cur, f"order {perm}", src)
        if d != ref:
            raise Violation("order-dependent",
                            f"pending={pending} order {perm} differs from all-at-once\n--- original\n{src}\n"
                            f"--- all at once\n{allatonce.decode()}\n--- order {perm}\n{cur.decode()}")
    return {"nontrivial": multi if not asserting else len(prog["sites"]) >= 2,
            "classes": [f"k={len(pending)}", "pending=" + ",".join(pending)],
            "extra": {"sessions": n_runs},
            "sample": {"pending": pending, "before": src, "after": allatonce.decode()}}


FILE_B = ("from inline_snapshot import snapshot\n\n\ndef test_b1():\n    assert 2 in snapshot([1, 2, 3])\n\n\n"
          "def test_b2():\n    assert 1 == snapshot(0+1)\n\n\ndef test_b3():\n    assert 7 == snapshot()\n")


def check_pytest_two_files(case):
    """two test files whose pending categories differ (the generated program, and a fixed second file with a
    trim, an update and a create): together in one real session against one category per in-process run"""
    import shutil

    prog = case["prog"]
    src, order = gp.render_program(prog)
    files0 = {"test_a.py": src.encode(), "test_b.py": FILE_B.encode()}
    first_name = "test_a.py" if len(src) % 2 else "test_z.py"    # the generated file is collected first or last
    files0 = {first_name: files0["test_a.py"], "test_b.py": files0["test_b.py"]}

    def run(files, F, label):
        ses = drivers.run_inline(files, set(F))
        if not ses.ok():
            err = ses.exec_error or ses.collect_error or ses.apply_error
            raise Violation(f"session-exception:{type(err).__name__}", f"{label} F={F} {type(err).__name__}: {err}\n{src}")
        return ses

    probe = run(files0, (), "probe")
    pending = sorted(probe.reported)
    if len(pending) < 2:
        return {"nontrivial": False, "classes": [f"k={len(pending)}"]}
    cur = dict(files0)
    for cat in pending:
        cur = dict(run(cur, [cat], f"step {cat}").files_after)
    d = drivers.make_project({k: v.decode() for k, v in files0.items()})
    try:
        r = drivers.run_pytest(d, ["--inline-snapshot=" + ",".join(pending)])
        if "INTERNALERROR" in r.stdout or r.returncode not in (0, 1) or "Traceback (most recent call last)" in r.stderr:
            raise Violation("session-broken", f"pending={pending} rc={r.returncode}\n{src}\n{r.stdout[-1500:]}\n{r.stderr[-1500:]}")
        together = r.files_after
    finally:
        shutil.rmtree(d, ignore_errors=True)
    for name in files0:
        if _dump(together[name], f"together {name}", src) != _dump(cur[name], f"one at a time {name}", src):
            raise Violation("order-dependent:real-session:two-files",
                            f"pending={pending}: {name} after a real session approving them together differs from one "
                            f"category per run\n--- original\n{files0[name].decode()}\n--- together\n{together[name].decode()}\n"
                            f"--- one at a time\n{cur[name].decode()}")
    return {"nontrivial": True, "classes": [f"k={len(pending)}", "two-files", first_name],
            "sample": {"pending": pending, "before": src}}


def check_pytest(case):
    """all-at-once through a *real* session (the plugin applies the categories step by step for its diff
    display) against one category per run on the in-process driver"""
    import shutil

    prog = case["prog"]
    src, order = gp.render_program(prog)
    b0 = src.encode()
    probe = _run(b0, (), "probe", src)
    pending = sorted(probe.reported)
    if len(pending) < 2:
        return {"nontrivial": False, "classes": [f"k={len(pending)}"]}
    cur = b0
    for cat in pending:
        cur = _run(cur, [cat], f"step {cat}", src).files_after["test_a.py"]
    ref = _dump(cur, "one at a time", src)
    d = drivers.make_project({"test_a.py": src})
    try:
        r = drivers.run_pytest(d, ["--inline-snapshot=" + ",".join(pending)])
        if "INTERNALERROR" in r.stdout or r.returncode not in (0, 1) or "Traceback (most recent call last)" in r.stderr:
            raise Violation("session-broken", f"pending={pending} rc={r.returncode}\n{src}\n{r.stdout[-1500:]}\n{r.stderr[-1500:]}")
        together = r.files_after["test_a.py"]
    finally:
        shutil.rmtree(d, ignore_errors=True)
    if _dump(together, "together (real session)", src) != ref:
        raise Violation("order-dependent:real-session",
                        f"pending={pending}: a real session approving them together differs from one category per run\n"
                        f"--- original\n{src}\n--- together\n{together.decode()}\n--- one at a time\n{cur.decode()}")
    multi = any(len(flags) >= 2 for _pos, flags in probe.per_site)
    return {"nontrivial": multi, "classes": [f"k={len(pending)}", "real-session"],
            "sample": {"pending": pending, "before": src, "after": together.decode()}}


def _strategy_mixed(tier):
    from .c10 import _container

    return st.builds(lambda c: {"c": c}, _container(0, tier))


def check_mixed(case):
    """containers that mix managed elements with inner snapshots / Is() / f-strings (the generator of C10): an
    inner snapshot has changes of its own, which must be found in the same run as the fix of its parent"""
    import warnings

    from .c10 import render_new, render_old

    c = case["c"]
    decls = []
    old_text = render_old(c, decls)
    src = ("from inline_snapshot import snapshot, Is\nfrom dirty_equals import IsInt, IsStr, AnyThing\n"
           "from vf_prelude import *\n\n" + "\n".join(decls) + "\n\n\ndef test_a():\n"
           f"    assert {render_new(c)} == snapshot({old_text})\n")
    b0 = src.encode()
    with warnings.catch_warnings():
        warnings.simplefilter("ignore")
        probe = _run(b0, (), "probe", src)
        pending = sorted(probe.reported)
        if len(pending) < 2:
            return {"nontrivial": False, "classes": [f"k={len(pending)}"]}
        allatonce = _run(b0, pending, "all-at-once", src).files_after["test_a.py"]
        ref = _dump(allatonce, "all-at-once", src)
        n_runs = 1
        for perm in itertools.permutations(pending):
            cur = b0
            for cat in perm:
                cur = _run(cur, [cat], f"order {perm} step {cat}", src).files_after["test_a.py"]
                n_runs += 1
            if _dump(cur, f"order {perm}", src) != ref:
                raise Violation("order-dependent:mixed",
                                f"pending={pending} order {perm} differs from all-at-once\n--- original\n{src}\n"
                                f"--- all at once\n{allatonce.decode()}\n--- order {perm}\n{cur.decode()}")
    has_inner = "snapshot(" in old_text
    return {"nontrivial": has_inner, "classes": [f"k={len(pending)}", "mixed", "inner" if has_inner else "no-inner"],
            "extra": {"sessions": n_runs}, "sample": {"pending": pending, "before": src, "after": allatonce.decode()}}


@st.composite
def _strategy_inner(draw, tier):
    """an outer == snapshot (list / dict / constructor call) whose elements are managed values or inner
    snapshots, each in a state that makes one category pending"""
    n = draw(st.sampled_from([2, 3, 4]))
    elems = [draw(st.sampled_from(["same", "fix", "update", "inner-create", "inner-fix", "inner-update", "inner-same",
                                   "inner-create", "inner-fix"])) for _ in range(n)]
    return {"elems": elems, "shape": draw(st.sampled_from(["list", "dict", "tuple", "call"])),
            "longer": draw(st.sampled_from([False, False, True]))}


def check_inner(case):
    import warnings

    olds, news = [], []
    for i, k in enumerate(case["elems"]):
        v = 10 + i
        news.append(str(v))
        olds.append({"same": str(v), "fix": str(v + 100), "update": f"{v - 1}+1", "inner-create": "snapshot()",
                     "inner-fix": f"snapshot({v + 100})", "inner-update": f"snapshot({v - 1}+1)",
                     "inner-same": f"snapshot({v})"}[k])
    if case["longer"]:
        news.append("99")       # the observed value has one more element: the lengths differ
    shape = case["shape"]
    if shape == "call":
        olds, news = olds[:2], news[:2]

    def wrap(xs):
        if shape == "list":
            return "[" + ", ".join(xs) + "]"
        if shape == "tuple":
            return "(" + ", ".join(xs) + ",)"
        if shape == "dict":
            return "{" + ", ".join(f"'k{i}': {x}" for i, x in enumerate(xs)) + "}"
        return "Point(" + ", ".join(f"{n}={x}" for n, x in zip("xy", xs)) + ")"

    src = ("from inline_snapshot import snapshot\nfrom vf_prelude import *\n\n\ndef test_a():\n"
           f"    assert {wrap(news)} == snapshot({wrap(olds)})\n")
    b0 = src.encode()
    with warnings.catch_warnings():
        warnings.simplefilter("ignore")
        probe = _run(b0, (), "probe", src)
        pending = sorted(probe.reported)
        if len(pending) < 2:
            return {"nontrivial": False, "classes": [f"k={len(pending)}"]}
        allatonce = _run(b0, pending, "all-at-once", src).files_after["test_a.py"]
        ref = _dump(allatonce, "all-at-once", src)
        n_runs = 1
        for perm in itertools.permutations(pending):
            cur = b0
            for cat in perm:
                cur = _run(cur, [cat], f"order {perm} step {cat}", src).files_after["test_a.py"]
                n_runs += 1
            if _dump(cur, f"order {perm}", src) != ref:
                raise Violation("order-dependent:inner",
                                f"pending={pending} order {perm} differs from all-at-once\n--- original\n{src}\n"
                                f"--- all at once\n{allatonce.decode()}\n--- order {perm}\n{cur.decode()}")
    inner = any(k.startswith("inner-") and k != "inner-same" for k in case["elems"])
    outer = any(k in ("fix", "update") for k in case["elems"]) or case["longer"]
    return {"nontrivial": inner and outer, "classes": [f"k={len(pending)}", "inner", shape],
            "extra": {"sessions": n_runs}, "sample": {"pending": pending, "before": src, "after": allatonce.decode()}}


# ------------------------------------------------------------ real sessions, added imports


@st.composite
def _strategy_imports(draw, tier):
    """sites whose new code needs `external` / `HasRepr` imports, pending in the same or in different categories"""
    kinds = draw(st.lists(st.sampled_from(["ext-create", "ext-fix", "opaque-create", "opaque-fix", "plain-fix", "plain-create"]),
                          min_size=2, max_size=3))
    return {"kinds": kinds, "imported": draw(st.sampled_from([[], [], ["external"], ["HasRepr"]]))}


def imports_signature(case):
    need = {}
    for k in case["kinds"]:
        name = {"ext": "external", "opaque": "HasRepr"}.get(k.split("-")[0])
        if name and name not in case["imported"]:
            need.setdefault(name, set()).add(k.split("-")[1])
    if len(need) == 2 and need["external"] != need["HasRepr"]:
        return {"added-import-order"}
    return set()


def check_imports(case):
    import shutil

    lines = ["from inline_snapshot import snapshot, outsource"] + [f"from inline_snapshot import {n}" for n in case["imported"]]
    lines += ["from vf_prelude import *", "", "", "def test_a():"]
    for i, k in enumerate(case["kinds"]):
        obs = {"ext": f"outsource('data {i}')", "opaque": f"[Opaque({i})]", "plain": f"[{i}]"}[k.split("-")[0]]
        old = "" if k.endswith("create") else "[99]"
        lines.append(f"    assert {obs} == snapshot({old})")
    src = "\n".join(lines) + "\n"

    def run(order):
        d = drivers.make_project({"test_a.py": src})
        try:
            for f in order:
                r = drivers.run_pytest(d, ["--inline-snapshot=" + f])
                if "INTERNALERROR" in r.stdout or r.returncode not in (0, 1):
                    raise Violation("session-broken", f"{order} rc={r.returncode}\n{src}\n{r.stdout[-1500:]}")
            return r.files_after["test_a.py"]
        finally:
            shutil.rmtree(d, ignore_errors=True)

    together = run(["create,fix"])
    ref = _dump(together, "together", src)
    for order in (["create", "fix"], ["fix", "create"]):
        out = run(order)
        if _dump(out, str(order), src) != ref:
            raise Violation("order-dependent:added-imports",
                            f"order {order} differs from create,fix together\n--- original\n{src}\n--- together\n"
                            f"{together.decode()}\n--- {order}\n{out.decode()}")
    return {"nontrivial": any(k.split("-")[0] != "plain" for k in case["kinds"]), "classes": sorted(set(case["kinds"])),
            "sample": {"before": src, "after": together.decode()}}


def _strategy_assert(tier):
    return gp.program_with_prev(tier, max_sites=4, min_sites=2, styles=("assert",), p_missing=0.25,
                                ops=("eq", "in", "getitem", "le", "ge", "eq")).map(lambda p: {"prog": p})


def check_assert(case):
    return check(case, asserting=True)


ARMS = [
    HypArm("orders", _strategy, check, signature=positional_signature,
           budget={"quick": 200, "thorough": 15000}),
    HypArm("orders_assert", _strategy_assert, check_assert, signature=positional_signature,
           budget={"quick": 120, "thorough": 8000}),
    HypArm("orders_mixed", _strategy_mixed, check_mixed, budget={"quick": 300, "thorough": 10000}),
    HypArm("orders_inner", _strategy_inner, check_inner, budget={"quick": 200, "thorough": 5000}),
    HypArm("together_two_files", _strategy, check_pytest_two_files, signature=positional_signature,
           budget={"quick": 32, "thorough": 600}, shrink=False),
    HypArm("real_imports", _strategy_imports, check_imports, signature=imports_signature,
           budget={"quick": 16, "thorough": 300}, shrink=False, min_per_shard=2),
    HypArm("together_real_session", _strategy, check_pytest, signature=positional_signature,
           budget={"quick": 64, "thorough": 2000}, shrink=False),
]
