"""C04 - nothing is written without approval; exactly the approved categories apply."""

from __future__ import annotations

import hashlib
import re
import shutil

from hypothesis import strategies as st

from .. import drivers, gen_programs as gp, gen_values as gv, oracles
from ..models.categories import MISSING, model
from ..models.flags import CATEGORIES, CI_VARS, resolve
from ..runner import HypArm, EnumArm, Violation
from .c05 import signature as c05_signature, value_matches

ID = "C04"
LEVEL = "exploration"
RULE = (
    "real pytest sessions over configuration x program. Configuration: CLI value (absent | any subset of the "
    "four categories optionally with report / review / short-report | disable | a default or user-defined "
    "shortcut option | an unknown flag | disable+category) x INLINE_SNAPSHOT_DEFAULT_FLAGS (unset | value) x "
    "pyproject default-flags / default-flags-tui / shortcuts / the remaining options at their documented default values x tty (FORCE_COLOR) x CI variable (none | one of 12 "
    "| with PYCHARM_HOSTED) x xdist (-n 2 | -n 0 | none) x review answer strings x xfail markers (bare, True, "
    "False, reason). Program: 2-4 recording-style sites with noisy previous values (pending categories known "
    "from the category model), one outsourced external site and one persisted but unreferenced external in the "
    "storage dir. Oracle: an independent model of flag resolution (written from the docs) predicts usage error | "
    "disabled | active with approved set F (review: F from the prompts actually shown and the answers given). "
    "F empty / disabled / usage error: every test file and every persisted external is byte-identical (sha256 "
    "before/after) and usage errors exit with status 4. F non-empty: the files equal those of a reference "
    "session --inline-snapshot=<F> on a pristine copy in a neutral environment, the per-site values equal the "
    "category model's prediction for F, and a persisted external disappears only if trim is in F. The grid arm "
    "enumerates all 16 subsets x {none, report, review-all-n, review-all-y, short-report} exhaustively on a "
    "fixed program. non-trivial = F resolved through something other than a plain CLI category list, or a "
    "disabling environment, or review answers with both y and n; and >= 2 pending categories."
)
ASSUMPTIONS = [
    "a terminal is approximated by FORCE_COLOR (rich's Console.is_terminal); cpython only",
    "storage files with the -new suffix and the storage .gitignore are not test files or persisted externals",
]

UNREF = b"unreferenced persisted data"
UNREF_NAME = hashlib.sha256(UNREF).hexdigest() + ".txt"


def cat_subsets():
    from .c05 import flag_sets

    return flag_sets()


@st.composite
def _config(draw):
    # "defaults": nothing on the command line or in the environment - only the pyproject defaults decide
    kind = draw(st.sampled_from(["cli", "cli", "cli", "none", "shortcut", "env", "bad", "defaults", "defaults"]))
    cfg = {"cli": None, "shortcut": None, "env_flags": None, "tty": draw(st.sampled_from([False, False, True])),
           "ci": None, "pycharm": False, "xdist": None, "pyproject": {}}
    if kind == "cli":
        words = draw(cat_subsets())
        mode = draw(st.sampled_from([None, None, "report", "review", "short-report", "disable-alone", "empty"]))
        if mode == "empty":
            # `--inline-snapshot=` with an empty value (an empty shell variable): nothing is approved
            words, mode = [], None
        if mode == "disable-alone":
            words = ["disable"]
        elif mode:
            words = words + [mode]
        cfg["cli"] = words
    elif kind == "bad":
        cfg["cli"] = draw(st.sampled_from([["creat"], ["fix", "disable"], ["disable", "report"], ["Fix"], ["all"]]))
    elif kind == "shortcut":
        cfg["shortcut"] = draw(st.sampled_from(["fix", "review", "snapoff", "snapall"]))
    elif kind == "env":
        cfg["env_flags"] = ",".join(draw(cat_subsets()) + draw(st.sampled_from([[], ["report"], ["short-report"], ["review"]])))
        if not cfg["env_flags"]:
            cfg["env_flags"] = "report"
    if kind != "defaults" and draw(st.booleans()):
        cfg["env_flags"] = cfg["env_flags"] or (",".join(draw(cat_subsets())) or "report")
    if kind == "defaults":
        cfg["tty"] = draw(st.booleans())
    pp = {}
    which = draw(st.sampled_from(["flags", "tui", "tui", "both"])) if kind == "defaults" else None
    if which in ("flags", "both") or (which is None and draw(st.booleans())):
        pp["default-flags"] = draw(cat_subsets()) + draw(st.sampled_from([[], ["report"], ["short-report"]]))
    if which in ("tui", "both") or (which is None and draw(st.booleans())):
        pp["default-flags-tui"] = draw(cat_subsets()) + draw(st.sampled_from([[], ["report"], ["review"]]))
    if cfg["shortcut"] in ("snapoff", "snapall") or draw(st.integers(0, 3)) == 0:
        # (names chosen so that they do not collide with options of pytest itself)
        pp["shortcuts"] = {"snapoff": ["disable"], "snapall": ["create", "fix", "trim", "update"], "fix": ["fix"],
                           "review": ["review", "create"]}
    if draw(st.integers(0, 3)) == 0:
        # the other options, spelled out with the values the documentation lists as defaults
        pp["documented-defaults"] = True
    cfg["pyproject"] = pp
    env = draw(st.sampled_from(["none", "none", "none", "ci", "ci-pycharm", "xdist2", "xdist0"]))
    if kind == "defaults" and draw(st.booleans()):
        env = "none"
    if env.startswith("ci"):
        cfg["ci"] = draw(st.sampled_from(list(CI_VARS)))
        cfg["pycharm"] = env == "ci-pycharm"
    elif env == "xdist2":
        cfg["xdist"] = 2
    elif env == "xdist0":
        cfg["xdist"] = 0
    cfg["answers"] = draw(st.text(alphabet="yn", max_size=4))
    return cfg


@st.composite
def _case(draw, tier):
    prog = draw(gp.program_with_prev(tier, max_sites=4, min_sites=2, styles=("record",), max_leaves=5,
                                     places=("assert", "var", "module", "lambda"), p_missing=0.3))
    xfail = [draw(st.sampled_from([None, None, None, "bare", "true", "false", "reason"])) for _ in prog["tests"]]
    return {"prog": prog, "cfg": draw(_config()), "xfail": xfail,
            "ext": draw(st.sampled_from(["data-a", "other text", ""])) if draw(st.booleans()) else None,
            # the whole module marked xfail through `pytestmark` (a marker that is not on the function itself)
            "module_xfail": draw(st.sampled_from([False] * 7 + [True]))}


def signature(case):
    return c05_signature(case)


XFAIL_DECO = {"bare": "@pytest.mark.xfail", "true": "@pytest.mark.xfail(True, reason='r')",
              "false": "@pytest.mark.xfail(False, reason='r')", "reason": "@pytest.mark.xfail(reason='because')"}


def build_project(case):
    prog = case["prog"]
    src, order = gp.render_program(prog)
    lines = src.split("\n")
    out = []
    for ln in lines:
        m = re.match(r"def test_(\d+)\(\):", ln)
        if m and case["xfail"][int(m.group(1))]:
            out.append(XFAIL_DECO[case["xfail"][int(m.group(1))]])
        out.append(ln)
    src = "import pytest\n" + "\n".join(out)
    if case.get("module_xfail"):
        src = src.replace("LOG = []\n", "LOG = []\npytestmark = pytest.mark.xfail(reason='whole module')\n", 1)
    n_sites = len(order)
    if case["ext"] is not None:
        src = src.replace("from inline_snapshot import snapshot", "from inline_snapshot import snapshot, outsource", 1)
        src += f"\ndef test_zz_ext():\n    LOG.append(outsource({case['ext']!r}) == snapshot())\n"
    pp = case["cfg"]["pyproject"]
    toml = ["[tool.black]", "line-length = 88", "", "[tool.inline-snapshot]"]
    for k in ("default-flags", "default-flags-tui"):
        if k in pp:
            toml.append(f"{k} = {list(pp[k])!r}".replace("'", '"'))
    if pp.get("documented-defaults"):
        toml += ["hash-length=15", 'format-command=""', "skip-snapshot-updates-for-now=false"]
    if "shortcuts" in pp:
        toml.append("")
        toml.append("[tool.inline-snapshot.shortcuts]")
        for k, v in pp["shortcuts"].items():
            toml.append(f"{k} = {list(v)!r}".replace("'", '"'))
    files = {"test_a.py": src, "pyproject.toml": "\n".join(toml) + "\n",
             f".inline-snapshot/external/{UNREF_NAME}": UNREF}
    return files, src, order, n_sites


def command(cfg):
    args, env, stdin = [], {}, b""
    if cfg["cli"] is not None:
        args.append("--inline-snapshot=" + ",".join(cfg["cli"]))
    elif cfg["shortcut"] is not None:
        args.append("--" + cfg["shortcut"])
    if cfg["env_flags"] is not None:
        env["INLINE_SNAPSHOT_DEFAULT_FLAGS"] = cfg["env_flags"]
    if cfg["tty"]:
        env["FORCE_COLOR"] = "true"
    if cfg["ci"]:
        env[cfg["ci"]] = "1"
    if cfg["pycharm"]:
        env["PYCHARM_HOSTED"] = "1"
    if cfg["xdist"] is not None:
        args += ["-n", str(cfg["xdist"])]
    stdin = ("\n".join(cfg.get("answers", "") + "nnnnnnnn") + "\n").encode()
    return args, env, stdin


def protected(all_files):
    """test files and persisted externals (content hashes)"""
    out = {}
    for k, v in all_files.items():
        if k.endswith(".py") or (".inline-snapshot/external/" in k and "-new." not in k and not k.endswith(".gitignore")):
            out[k] = hashlib.sha256(v).hexdigest()
    return out


PROMPT = re.compile(r"Do you want to \S*?(create|fix|trim|update)\S* these snapshots\?")


def check(case):
    cfg = case["cfg"]
    files, src, order, n_sites = build_project(case)
    res = resolve(cfg)
    args, env, stdin = command(cfg)
    d = drivers.make_project(files, pyproject=None)
    try:
        before = protected(drivers.read_files(d, suffixes=None))
        r = drivers.run_pytest(d, args, env=env, stdin=stdin)
        after_all = r.all_after
        after = protected(after_all)
    finally:
        shutil.rmtree(d, ignore_errors=True)
    ctx = f"args={args} env={env} pyproject={cfg['pyproject']} xfail={case['xfail']}\nmodel: {res['kind']} {sorted(res['approved'])} review={res['review']} ({res['reason']})"
    if "INTERNALERROR" in r.stdout:
        raise Violation("internal-error", f"{ctx}\n{src}\n{r.stdout[-2500:]}")

    def unchanged(why):
        if after != before:
            diff = {k: (before.get(k), after.get(k)) for k in set(before) | set(after) if before.get(k) != after.get(k)}
            raise Violation(f"written-without-approval:{why}",
                            f"{ctx}\nchanged: {sorted(diff)}\n--- before\n{src}\n--- after\n"
                            f"{after_all.get('test_a.py', b'').decode()}\n{r.stdout[-2000:]}")

    classes = [res["kind"], res["reason"] or "plain"]
    if res["kind"] == "usage_error":
        if r.returncode != 4:
            raise Violation("usage-error-not-reported", f"{ctx}\nrc={r.returncode}\n{r.stdout[-1500:]}\n{r.stderr[-800:]}")
        unchanged("usage-error")
        return {"nontrivial": True, "classes": classes, "sample": {"args": args, "env": env, "rc": r.returncode}}
    ok_rc = (0, 1, 2) if res["kind"] == "disabled" else (0, 1)  # an empty module-level snapshot() is a collection error when disabled
    if r.returncode not in ok_rc:
        raise Violation("unexpected-exit-status", f"{ctx}\nrc={r.returncode}\n{r.stdout[-1500:]}\n{r.stderr[-1500:]}")
    if res["kind"] == "disabled":
        unchanged("disabled:" + res["reason"])
        return {"nontrivial": True, "classes": classes, "sample": {"args": args, "env": env}}
    if case.get("module_xfail") and not any(s.get("place") == "module" for s in case["prog"]["sites"]):
        # every test is xfail: nothing inside them may be written, whatever is approved
        if after.get("test_a.py") != before.get("test_a.py"):
            raise Violation("xfail-module-rewritten",
                            f"{ctx}\nall tests are marked xfail (pytestmark) but the test file changed\n--- before\n{src}\n"
                            f"--- after\n{after_all.get('test_a.py', b'').decode()}\n{r.stdout[-1500:]}")
        return {"nontrivial": True, "classes": classes + ["module-xfail"], "sample": {"args": args, "env": env}}
    if case.get("module_xfail"):
        return {"nontrivial": False, "classes": classes + ["module-xfail-skipped"]}
    F = set(res["approved"])
    asked = PROMPT.findall(r.stdout)
    if res["review"]:
        for cat, ans in zip(asked, cfg.get("answers", "") + "nnnnnnnn"):
            if ans == "y":
                F.add(cat)
    elif asked:
        raise Violation("prompt-without-review", f"{ctx}\nasked {asked}\n{r.stdout[-1500:]}")
    classes.append("F=" + ",".join(sorted(F)))
    if not F:
        unchanged("nothing-approved")
    else:
        # reference: plain CLI category list, neutral environment, pristine copy
        ref_files = dict(files)
        ref_files["pyproject.toml"] = "[tool.black]\nline-length = 88\n"
        if cfg["pyproject"].get("documented-defaults"):
            # only what decides *which* categories apply is dropped from the reference configuration (the
            # documented hash-length differs from the built-in one and shows in external(...) references)
            ref_files["pyproject.toml"] += "\n[tool.inline-snapshot]\nhash-length=15\n"
        d2 = drivers.make_project(ref_files, pyproject=None)
        try:
            r2 = drivers.run_pytest(d2, ["--inline-snapshot=" + ",".join(sorted(F))])
            ref = protected(r2.all_after)
            ref_text = r2.all_after.get("test_a.py", b"").decode()
        finally:
            shutil.rmtree(d2, ignore_errors=True)
        if after != ref:
            diff = sorted(k for k in set(ref) | set(after) if ref.get(k) != after.get(k))
            raise Violation("differs-from-plain-flags",
                            f"{ctx}\napproved F={sorted(F)}; differs from --inline-snapshot={','.join(sorted(F))} in {diff}\n"
                            f"--- before\n{src}\n--- this session\n{after_all.get('test_a.py', b'').decode()}\n--- reference\n{ref_text}\n{r.stdout[-1500:]}")
    # persisted unreferenced external: only an approved trim may remove it
    key = f".inline-snapshot/external/{UNREF_NAME}"
    if key not in after and "trim" not in F:
        raise Violation("external-removed-without-trim", f"{ctx}\nF={sorted(F)}\n{r.stdout[-1500:]}")
    # value level: the category model
    text = after_all["test_a.py"].decode()
    g, _r, err = drivers.run_disabled({"test_a.py": drivers.stub_source(text)}, test_prefix="never")
    if err is not None:
        raise Violation("unreadable", f"{ctx}\n{type(err).__name__}: {err}\n{text}")
    vals = oracles.eval_site_args(text, g["test_a.py"])
    prog = case["prog"]
    ev = gp.exec_events(prog)
    site_test = {}
    for ti, t in enumerate(prog["tests"]):
        for i in t:
            site_test.setdefault(i, []).append(ti)
    pending = set()
    for pos, i in enumerate(order):
        s = prog["sites"][i]
        # observations made inside xfail tests do not count (snapshots are disabled there)
        live_tests = [ti for ti in site_test.get(i, []) if case["xfail"][ti] in (None, "false")]
        if len(live_tests) != len(site_test.get(i, [])):
            if live_tests or s.get("place") == "module":
                # shared between an xfail and a normal test, or created at import time outside of the
                # xfail test: not modelled (the differential with the reference session still applies)
                continue
            events = []
        else:
            events = gp.build_events(s["op"], ev[i])
        prev = gp.prev_value(s)
        cats, want = model(s["op"], prev, events, F)
        pending |= cats
        kind, got = vals[pos]
        got = MISSING if kind == "empty" else got
        if kind == "error":
            raise Violation("site-unreadable", f"{ctx}\nsite {i}: {got}\n{text}")
        if not value_matches(s["op"], got, want, events):
            raise Violation(f"value-not-as-approved:{s['op']}",
                            f"{ctx}\nF={sorted(F)} site {i} ({s['op']}) previous {prev!r} observed {events!r}: "
                            f"value after {got!r}, model {want!r}\n--- before\n{src}\n--- after\n{text}\n{r.stdout[-1200:]}")
    plain_cli = cfg["cli"] is not None and set(cfg["cli"]) <= CATEGORIES and not cfg["tty"] and cfg["xdist"] is None and not cfg["ci"]
    answers = cfg.get("answers", "")
    nt = len(pending) >= 2 and (not plain_cli or (res["review"] and "y" in answers and "n" in answers))
    return {"nontrivial": nt, "classes": classes, "sample": {"args": args, "env": env, "F": sorted(F), "before": src, "after": text}}


# ---------------------------------------------------------------------------- exhaustive grid

GRID_MODES = ["none", "report", "review-n", "review-y", "short-report"]


def _grid(tier):
    import itertools

    cats = sorted(CATEGORIES)
    subsets = [list(c) for n in range(5) for c in itertools.combinations(cats, n)]
    cells = [(s, m) for s in subsets for m in GRID_MODES]

    def chunk(i):
        s, m = cells[i]
        yield {"subset": s, "mode": m}

    return len(cells), chunk


GRID_PROGRAM = {
    "sites": [
        {"op": "eq", "prev": None, "prev_desc": None, "events": [["int", 5]], "place": "assert", "style": "record", "rev": False},
        {"op": "eq", "prev": "[1, 0+2]", "prev_desc": ["list", [["int", 1], ["int", 2]]], "events": [["list", [["int", 1], ["int", 3]]]], "place": "assert", "style": "record", "rev": False},
        {"op": "le", "prev": "8", "prev_desc": ["int", 8], "events": [["int", 2], ["int", 4]], "place": "assert", "style": "record", "rev": False},
        {"op": "in", "prev": "[5, 6]", "prev_desc": ["list", [["int", 5], ["int", 6]]], "events": [["int", 5], ["int", 9]], "place": "var", "style": "record", "rev": False},
        {"op": "eq", "prev": "1+2", "prev_desc": ["int", 3], "events": [["int", 3]], "place": "assert", "style": "record", "rev": False},
        {"op": "getitem", "prev": "{'a': 1, 'z': 0}", "prev_desc": ["dict", [[["str", "a"], ["int", 1]], [["str", "z"], ["int", 0]]]],
         "events": [[["str", "a"], "eq", ["int", 1]], [["str", "b"], "eq", ["int", 2]]], "place": "var", "style": "record", "rev": False},
    ],
    "tests": [[0, 1, 2], [3, 4, 5]],
}


def check_grid(cell):
    words = list(cell["subset"])
    mode = cell["mode"]
    answers = ""
    if mode == "report":
        words.append("report")
    elif mode.startswith("review"):
        words.append("review")
        answers = "yyyy" if mode.endswith("y") else "nnnn"
    elif mode == "short-report":
        words.append("short-report")
    cfg = {"cli": words if words else None, "shortcut": None, "env_flags": None, "tty": False, "ci": None,
           "pycharm": False, "xdist": None, "pyproject": {}, "answers": answers}
    case = {"prog": GRID_PROGRAM, "cfg": cfg, "xfail": [None, None], "ext": "grid data"}
    info = check(case)
    info["nontrivial"] = True
    info["sample"] = {"cli": words, "answers": answers}
    return info


ARMS = [
    HypArm("sessions", lambda tier: _case(tier), check, signature=signature,
           budget={"quick": 96, "thorough": 6000}, shrink=False),
    EnumArm("grid", _grid, check_grid),
]
