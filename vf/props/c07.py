"""C07 - a wrong or missing snapshot never yields a green run."""

from __future__ import annotations

import shutil

from hypothesis import strategies as st

from .. import drivers
from ..runner import HypArm, Violation

ID = "C07"
LEVEL = "exploration"
RULE = (
    "real pytest sessions over generated files with 1-4 test functions, each with 1-4 sites whose status is "
    "chosen by the generator: ok (the comparison holds), wrong (some comparison fails against the value in the "
    "source) or missing (empty call / missing sub-snapshot key); all five operations, loops where only a later "
    "iteration is wrong, outsourced data against persisted externals (a wrong one shares a 3-digit hash prefix; hash-length "
    "1 / 2 / 3 / 12 / 15 configured while the source holds 12 digits), an outer snapshot evaluated twice that selects a second (wrong or empty) conditional inner snapshot the second time (also for ==, where the value in the source matches the first evaluations), module-level sites shared by several tests, asserting bodies; flags: every subset of "
    "the categories alone or with report / review (random y/n answers) / short-report, no flags at all, and "
    "disable. Which sites a test *executed* is observed, not modelled: the body appends a marker to a side "
    "file immediately before each comparison. Oracle (junit + exit status): a test that executed a wrong or "
    "missing site is failed or errored and the exit status is non-zero; a test whose executed sites all hold is "
    "`passed`; if that is true for all tests the exit status is 0. non-trivial = the bad site uses an operation "
    "other than == or is not the first site of its test, and the flags contain create, fix, update or review."
)
ASSUMPTIONS = ["snapshots are executed inside test functions; values are ints / short strs / lists of ints"]

CATS = ["create", "fix", "trim", "update"]


@st.composite
def _site(draw, idx):
    op = draw(st.sampled_from(["eq", "le", "ge", "in", "getitem", "eq", "le", "in", "cond", "ext"]))
    status = draw(st.sampled_from(["ok", "ok", "wrong", "missing", "wrongtype"]))
    if status == "wrongtype" and op not in ("le", "ge"):
        status = "wrong"
    xs = draw(st.lists(st.integers(0, 50), min_size=1, max_size=4))
    place = draw(st.sampled_from(["inline", "inline", "var", "module", "module", "loop"]))
    late = draw(st.booleans())  # in a loop: only the last iteration is wrong
    if place == "module" and status == "missing":
        place = "var"  # scope of the property: snapshots executed inside test functions
    return {"op": op, "status": status, "xs": xs, "place": place, "late": late, "id": idx}


@st.composite
def _flags(draw):
    mode = draw(st.sampled_from(["none", "none", "report", "review", "short-report", "noflag", "disable"]))
    cats = draw(st.lists(st.sampled_from(CATS), unique=True, max_size=4))
    answers = draw(st.text(alphabet="yn", min_size=0, max_size=4))
    return {"mode": mode, "cats": sorted(cats), "answers": answers}


@st.composite
def _case(draw, tier):
    ntests = draw(st.sampled_from([1, 2, 3, 4]))
    tests = []
    idx = 0
    for _ in range(ntests):
        sites = []
        for _ in range(draw(st.sampled_from([1, 2, 3, 4]))):
            sites.append(draw(_site(idx)))
            idx += 1
        tests.append(sites)
    # module-level sites may be shared with the next test
    share = draw(st.sampled_from([True, True, False]))
    # parametrised tests: the same call sites are evaluated again by a second test item
    param = [draw(st.sampled_from([1, 1, 2])) for _ in tests]
    return {"tests": tests, "share": share, "param": param, "flags": draw(_flags()),
            # [tool.inline-snapshot] hash-length (the references in the source were written with 12 characters)
            "hash_length": draw(st.sampled_from([None, None, 1, 2, 3, 15]))}


def _sha(text):
    import hashlib

    return hashlib.sha256(text.encode()).hexdigest()


def _ext_pairs():
    """pairs of strings whose sha256 share their first three hex digits (searched, deterministic)"""
    seen, pairs, i = {}, [], 0
    while len(pairs) < 3:
        d = f"report {i}"
        h = _sha(d)[:3]
        if h in seen:
            pairs.append((seen.pop(h), d))
        else:
            seen[h] = d
        i += 1
    return pairs


EXT_PAIRS = _ext_pairs()


def site_code(s):
    """returns (argument text, list of (x expression)) so that the status holds"""
    op, xs, status = s["op"], s["xs"], s["status"]
    if op == "eq":
        x = xs[0]
        if status == "wrong" and s["late"] and len(xs) >= 2:
            # the value in the source matches the first evaluations; only the last observed value differs
            return repr(x), [repr(x)] * (len(xs) - 1) + [repr(x + 1)]
        arg = {"ok": repr(x), "wrong": repr(x + 1), "missing": ""}[status]
        return arg, [repr(x)] * len(xs)
    if op in ("le", "ge") and status == "wrongtype":
        # the bound in the source cannot be ordered against the observed value (a str against an int): the
        # plain comparison raises, so the test can never be green
        return repr(xs[0]), [repr("v%d" % x) for x in xs]
    if op == "le":  # x <= snapshot(bound)
        arg = {"ok": repr(max(xs) + 1), "wrong": repr(max(xs) - 1), "missing": ""}[status]
        order = sorted(xs) if s["late"] else list(xs)
        return arg, [repr(x) for x in order]
    if op == "ge":
        arg = {"ok": repr(min(xs) - 1), "wrong": repr(min(xs) + 1), "missing": ""}[status]
        order = sorted(xs, reverse=True) if s["late"] else list(xs)
        return arg, [repr(x) for x in order]
    if op == "in":
        bad = max(xs)
        lst = sorted(set(xs))
        arg = {"ok": repr(lst + [99]), "wrong": repr([x for x in lst if x != bad] + [99]), "missing": ""}[status]
        order = sorted(xs) if s["late"] else list(xs)
        return arg, [repr(x) for x in order]
    # getitem: keys 'a', 'b'; the bad key is 'b'
    good = {"a": xs[0], "b": xs[-1]}
    if status == "ok":
        arg = repr(good)
    elif status == "wrong" and s["late"] and len(xs) >= 2:
        # the sub-snapshot of 'b' is compared twice, only the second observation differs
        return repr(good), [("a", repr(xs[0])), ("b", repr(xs[-1])), ("b", repr(xs[-1] + 1))]
    elif status == "wrong":
        arg = repr({"a": xs[0], "b": xs[-1] + 1})
    else:
        arg = repr({"a": xs[0]}) if s["late"] else ""
    return arg, [("a", repr(xs[0])), ("b", repr(xs[-1]))]


def cmp_line(s, S, x):
    op = s["op"]
    if op == "eq":
        return f"assert {x} == {S}"
    if op == "le":
        return f"assert {x} <= {S}"
    if op == "ge":
        return f"assert {x} >= {S}"
    if op == "in":
        return f"assert {x} in {S}"
    return f"assert {x[1]} == {S}[{x[0]!r}]"


def render(case):
    lines = ["import pytest", "from inline_snapshot import snapshot, outsource, external", "", "",
             "def mark(tag):", "    with open('executed.log', 'a') as f:", "        f.write(tag + '\\n')", ""]
    module_sites = []
    for ti, sites in enumerate(case["tests"]):
        for s in sites:
            if s["place"] == "module" and s["op"] not in ("cond", "ext"):
                arg, _ = site_code(s)
                lines.append(f"S{s['id']} = snapshot({arg})")
                module_sites.append((ti, s))
    lines.append("")
    params = case.get("param") or [1] * len(case["tests"])
    for ti, sites in enumerate(case["tests"]):
        if params[ti] > 1:
            lines.append(f"@pytest.mark.parametrize('r', {list(range(params[ti]))!r})")
            lines.append(f"def test_{ti}(r):")
        else:
            lines.append(f"def test_{ti}(r=0):")
        use = list(sites)
        if case["share"] and ti > 0:
            use += [s for t, s in module_sites if t == ti - 1]
        for s in use:
            tag = f"t{ti}r%d.s{s['id']}"
            if s["op"] == "ext":
                # outsourced data against a persisted external; a wrong one shares a short hash prefix with it
                a, b = EXT_PAIRS[s["xs"][0] % len(EXT_PAIRS)]
                observed = a if s["status"] == "ok" else b
                arg = "" if s["status"] == "missing" else f'external("{_sha(a)[:12]}*.txt")'
                lines += [f"    mark({tag!r} % r)", f"    assert outsource({observed!r}) == snapshot({arg})"]
                continue
            if s["op"] == "cond":
                # an outer snapshot that is evaluated twice and selects another inner snapshot the second time
                # (docs/eq_snapshot.md, conditional snapshots); the bad one is the second
                a, b = s["xs"][0], s["xs"][-1] + 100
                inner_b = {"ok": repr(b), "wrong": repr(b + 1), "wrongtype": repr(b + 1), "missing": ""}[s["status"]]
                lines.append(f"    for c, x in [(0, {a}), (1, {b})]:")
                lines += [f"        mark({tag!r} % r)",
                          f"        assert [x, 1] == snapshot([snapshot({a}) if c == 0 else snapshot({inner_b}), 1])"]
                continue
            arg, xs = site_code(s)
            if s["place"] == "module":
                for x in xs:
                    lines += [f"    mark({tag!r} % r)", "    " + cmp_line(s, f"S{s['id']}", x)]
            elif s["place"] == "var":
                lines.append(f"    mark({tag!r} % r)")
                lines.append(f"    v{s['id']} = snapshot({arg})")
                for x in xs:
                    lines += [f"    mark({tag!r} % r)", "    " + cmp_line(s, f"v{s['id']}", x)]
            elif s["place"] == "loop" and s["op"] != "getitem":
                lines.append(f"    for x in [{', '.join(xs)}]:")
                lines += [f"        mark({tag!r} % r)", "        " + cmp_line(s, f"snapshot({arg})", "x")]
            elif s["op"] == "getitem":
                lines.append(f"    for k, x in [{', '.join('(%r, %s)' % kx for kx in xs)}]:")
                lines += [f"        mark({tag!r} % r)", f"        assert x == snapshot({arg})[k]"]
            else:
                # one call site: a loop when there are several observations
                if len(xs) == 1:
                    lines += [f"    mark({tag!r} % r)", "    " + cmp_line(s, f"snapshot({arg})", xs[0])]
                else:
                    lines.append(f"    for x in [{', '.join(xs)}]:")
                    lines += [f"        mark({tag!r} % r)", "        " + cmp_line(s, f"snapshot({arg})", "x")]
        lines.append("")
    return "\n".join(lines) + "\n"


def cli(flags):
    mode, cats = flags["mode"], flags["cats"]
    if mode == "noflag":
        return [], b""
    if mode == "disable":
        return ["--inline-snapshot=disable"], b""
    parts = list(cats)
    if mode != "none":
        parts.append(mode)
    if not parts:
        return [], b""
    stdin = b""
    if mode == "review":
        stdin = ("\n".join(flags["answers"] + "nnnnnnnn") + "\n").encode()
    return ["--inline-snapshot=" + ",".join(parts)], stdin


def check(case):
    src = render(case)
    args, stdin = cli(case["flags"])
    files = {"test_a.py": src}
    for a, _b in EXT_PAIRS:
        files[f".inline-snapshot/external/{_sha(a)}.txt"] = a
    pyproject = drivers.DEFAULT_PYPROJECT
    if case.get("hash_length"):
        pyproject += f"\n[tool.inline-snapshot]\nhash-length = {case['hash_length']}\n"
    d = drivers.make_project(files, pyproject=pyproject)
    try:
        env = {"FORCE_COLOR": "true"} if stdin else None
        r = drivers.run_pytest(d, args, stdin=stdin, env=env)
        log = (d / "executed.log").read_text().split() if (d / "executed.log").exists() else []
    finally:
        shutil.rmtree(d, ignore_errors=True)
    if "INTERNALERROR" in r.stdout or r.returncode not in (0, 1):
        raise Violation("session-broken", f"args={args} rc={r.returncode}\n{src}\n{r.stdout[-2500:]}\n{r.stderr[-1500:]}")
    executed = set(log)
    status = {}
    for sites in case["tests"]:
        for s in sites:
            status[s["id"]] = s
    any_bad = False
    nontrivial = False
    params = case.get("param") or [1] * len(case["tests"])
    instances = []
    for ti, sites in enumerate(case["tests"]):
        if params[ti] > 1:
            instances += [(ti, sites, rr, f"test_a::test_{ti}[{rr}]") for rr in range(params[ti])]
        else:
            instances.append((ti, sites, 0, f"test_a::test_{ti}"))
    for ti, sites, rr, name in instances:
        outcome = r.outcomes.get(name)
        if outcome is None:
            raise RuntimeError(f"harness: no outcome for {name}: {r.outcomes}\n{r.stdout[-1500:]}")
        tags = [t for t in executed if t.startswith(f"t{ti}r{rr}.")]
        bad_sites = [status[int(t.split(".s")[1])] for t in tags if status[int(t.split(".s")[1])]["status"] != "ok"]
        # a shared module-level site: wrongness depends on the values this test compares - the generator uses
        # the same observations for every test that shares it, so the status carries over
        if bad_sites:
            any_bad = True
            if outcome == "passed" or outcome == "skipped":
                raise Violation(f"green-with-bad-snapshot:{bad_sites[0]['op']}:{bad_sites[0]['status']}",
                                f"args={args} {name} executed a {bad_sites[0]['status']} site "
                                f"(op {bad_sites[0]['op']}, S{bad_sites[0]['id']}) but is reported as {outcome}\n{src}\n{r.stdout[-2000:]}")
            first = sites[0]["id"] if sites else None
            if any(b["op"] != "eq" or b["id"] != first for b in bad_sites) and (
                    set(case["flags"]["cats"]) & {"create", "fix", "update"} or case["flags"]["mode"] == "review"):
                nontrivial = True
        else:
            if outcome != "passed":
                raise Violation("failed-without-bad-snapshot",
                                f"args={args} {name}: all executed sites hold but outcome is {outcome}\n{src}\n{r.stdout[-2500:]}")
    if any_bad and r.returncode == 0:
        raise Violation("exit-status-zero-with-bad-snapshot", f"args={args}\n{src}\n{r.stdout[-2000:]}")
    if not any_bad and r.returncode != 0:
        raise Violation("exit-status-nonzero-without-bad-snapshot", f"args={args} rc={r.returncode}\n{src}\n{r.stdout[-2000:]}")
    return {"nontrivial": nontrivial, "classes": [case["flags"]["mode"], "bad" if any_bad else "all-ok"],
            "sample": {"args": args, "module": src, "outcomes": r.outcomes}}


ARMS = [HypArm("sessions", lambda tier: _case(tier), check, budget={"quick": 160, "thorough": 8000}, shrink=False)]
