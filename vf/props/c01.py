"""C01 - a created snapshot reads back as the value that was observed."""

from __future__ import annotations

import ast
import shutil

from hypothesis import strategies as st

from .. import drivers, gen_programs as gp, gen_values as gv, oracles
from ..models.categories import MISSING, holds, model
from ..runner import HypArm, Violation

ID = "C01"
LEVEL = "exploration"
RULE = (
    "programs of 1-3 empty snapshot() sites (ops ==, <=, >=, in, [key] with sub-operations; "
    "placements assert / local variable / module level (also shared by two tests) / helper argument / "
    "lambda / nested function; loops for repeated evaluation) observing values of the universe U "
    "(numbers, str, bytes, None, bool, list, tuple, dict, set, frozenset, Enum, Flag, classes, dataclass, "
    "attrs, pydantic, namedtuple, defaultdict, HasRepr objects, class with code repr) are run with "
    "create approved; the rewritten module is re-executed with inline-snapshot inactive, every "
    "site argument is evaluated in that namespace and the observed comparisons are recomputed on "
    "the plain value, and the rewritten tests must pass; the pytest arm does the same through a real "
    "session followed by --inline-snapshot=disable, including outsourced externals and HasRepr "
    "values whose import the plugin has to add. non-trivial = nesting depth >= 3, or a non-builtin "
    "type, or a str/bytes needing an escape or spanning lines, or op != ==, or placement != assert."
)
ASSUMPTIONS = [
    "values satisfy v == v and deepcopy(v) == v; bound operations only over totally ordered families",
    "HasRepr objects are not used as set members / dict keys (HasRepr is not hashable)",
    "float('inf') is readable because the prelude exports `inf` (a user import, like any class name)",
]


def _values_in(prog):
    for s in prog["sites"]:
        for e in s["events"]:
            if s["op"] == "getitem":
                yield e[0]
                yield e[2]
            else:
                yield e


def signature(case):
    sigs = set()
    for d in _values_in(case["prog"]):
        for x in gv.walk(d):
            if x[0] == "flag" and not x[2]:
                sigs.add("empty-flag")
            if x[0] == "dinit":
                sigs.add("init-false-field")
    return sigs


def _needs_hasrepr(prog):
    return any(x[0] == "opaque" for d in _values_in(prog) for x in gv.walk(d))


def _nontrivial(prog):
    for s in prog["sites"]:
        if s["op"] != "eq" or s.get("place", "assert") != "assert":
            return True
    return any(gv.is_nontrivial_value(d) for d in _values_in(prog))


@st.composite
def _strategy(draw, tier):
    prog = draw(gp.program(tier, max_sites=3))
    case = {"prog": prog}
    if draw(st.sampled_from([False, False, True])):
        # surrounding file layout (the decoration of C03): non-ASCII text left of the call, `;`-joined
        # sites, nested calls, decorators, tabs, CRLF, formatter-clean files
        case["deco"] = {
            "pre": [draw(st.sampled_from(["", 'u = "äöü🐍"; ', "t = 'é'; k = 1; "])) for _ in prog["sites"]],
            "wrap": [draw(st.integers(0, 2)) for _ in prog["sites"]],
            "join": draw(st.booleans()), "tabs": draw(st.booleans()), "crlf": draw(st.booleans()),
            "clean": draw(st.sampled_from([False, False, True])), "decorator": draw(st.booleans()),
            "strings": draw(st.booleans()),
        }
    return case


def check_sites(prog, order, text, namespace, what, extra_sites=0):
    r = oracles.eval_site_args(text, namespace)
    if len(r) != len(order) + extra_sites:
        raise Violation("site-count", f"{len(r)} sites after, {len(order)} before\n{text}")
    ev = gp.exec_events(prog)
    for pos, i in enumerate(order):
        s = prog["sites"][i]
        kind, w = r[pos]
        events = gp.build_events(s["op"], ev[i])
        if not events:
            continue
        if kind != "value":
            raise Violation("site-unreadable",
                            f"site {i} ({s['op']}) {kind}: {type(w).__name__ if w else ''} {w}\n{text}")
        try:
            ok = holds(s["op"], w, events)
        except Exception as e:
            raise Violation("comparison-raises", f"site {i}: {type(e).__name__}: {e}\n{text}")
        if not ok:
            raise Violation("readback-mismatch",
                            f"site {i} op={s['op']} written value {w!r} does not satisfy the observed "
                            f"comparisons {events!r}\n{text}")


def check_inline(case):
    prog = case["prog"]
    if case.get("deco"):
        from .c03 import decorate

        try:
            src, order = decorate({"prog": prog, "deco": case["deco"], "fmt": "black"})
            ast.parse(src)
        except Exception as e:
            raise RuntimeError(f"harness: decorated module invalid: {e}")
    else:
        src, order = gp.render_program(prog)
    ses = drivers.run_inline({"test_a.py": src.encode("utf-8")}, {"create"})
    if not ses.ok():
        err = ses.exec_error or ses.collect_error or ses.apply_error
        raise Violation("session-exception", f"{type(err).__name__}: {err}\n{src}")
    for name, exc in ses.test_results.items():
        if exc is not None:
            raise Violation("create-run-test-failed",
                            f"{name}: {type(exc).__name__}: {exc}\n{src}")
    new = ses.files_after["test_a.py"]
    try:
        text = new.decode("utf-8")
        ast.parse(text)
    except Exception as e:
        raise Violation("unparsable", f"{type(e).__name__}: {e}\n--- before\n{src}\n--- after\n{new!r}")
    g, results, exec_error = drivers.run_disabled({"test_a.py": new})
    if exec_error is not None:
        raise Violation("disabled-exec-error", f"{type(exec_error).__name__}: {exec_error}\n{text}")
    check_sites(prog, order, text, g["test_a.py"], "inline")
    for name, exc in results.items():
        if exc is not None:
            raise Violation("disabled-test-failed", f"{name}: {type(exc).__name__}: {exc}\n{text}")
    classes = [s["op"] for s in prog["sites"]] + ["place:" + s.get("place", "assert") for s in prog["sites"]]
    if case.get("deco"):
        classes.append("layout-noise")
    ks = set()
    for d in _values_in(prog):
        ks |= gv.kinds(d)
    classes += ["kind:" + k for k in ks if k not in ("int", "str", "none", "bool")]
    return {"nontrivial": _nontrivial(prog), "classes": classes,
            "sample": {"before": src, "after": text}}


# ---------------------------------------------------------------------------- pytest arm


@st.composite
def _pytest_case(draw, tier):
    prog = draw(gp.program(tier, max_sites=3, max_leaves=6))
    ext = draw(st.lists(st.one_of(
        st.text(max_size=10).filter(lambda s: _encodable(s)).map(lambda s: ["str", s]),
        st.binary(max_size=10).map(lambda b: ["bytes", list(b)])), max_size=2))
    opaque = draw(st.lists(st.integers(0, 5), max_size=2))
    # a function-local import of the names the plugin may have to import at module level
    return {"prog": prog, "ext": ext, "opaque": opaque, "nested_import": draw(st.sampled_from([False, False, True]))}


def _encodable(s):
    try:
        s.encode("utf-8")
        return True
    except UnicodeEncodeError:
        return False


def check_pytest(case):
    prog = case["prog"]
    src, order = gp.render_program(prog)
    extra = ["", "def test_ext():"]
    if case["ext"]:
        first, rest = src.split("\n", 1)
        assert first.startswith("from inline_snapshot import snapshot")
        src = first + ", outsource\n" + rest
    for d in case["ext"]:
        extra.append(f"    assert outsource({gv.render(d)}) == snapshot()")
        extra.append(f"    assert [outsource({gv.render(d)}), 1] == snapshot()")
    for n in case["opaque"]:
        extra.append(f"    assert [Opaque({n})] == snapshot()")
    if len(extra) == 2:
        extra.append("    pass")
    if case.get("nested_import"):
        extra += ["", "def helper_with_local_import():", "    from inline_snapshot import HasRepr, external",
                  "    return HasRepr, external"]
    src = src + "\n".join(extra) + "\n"
    files = {"test_a.py": src}
    twin = len(src) % 2 == 0 and not case["ext"]
    if twin:
        # a second module from the same template (identical functions at identical lines, its own file)
        files["test_twin.py"] = src
    d = drivers.make_project(files)
    try:
        r1 = drivers.run_pytest(d, ["--inline-snapshot=create"])
        if "INTERNALERROR" in r1.stdout or r1.returncode not in (0, 1) or "Traceback (most recent call last)" in r1.stderr:
            raise Violation("pytest-internal", f"rc={r1.returncode}\n{r1.stdout[-1500:]}\n{r1.stderr[-1500:]}\n{src}")
        if twin and r1.files_after["test_twin.py"] != r1.files_after["test_a.py"]:
            raise Violation("twin-modules-differ",
                            f"two identical modules were rewritten differently\n--- test_a.py\n{r1.files_after['test_a.py'].decode()}"
                            f"\n--- test_twin.py\n{r1.files_after['test_twin.py'].decode()}")
        new = r1.files_after["test_a.py"]
        try:
            text = new.decode("utf-8")
            ast.parse(text)
        except Exception as e:
            raise Violation("unparsable", f"{type(e).__name__}: {e}\n--- before\n{src}\n--- after\n{new!r}")
        empties = [k for k, _ in oracles.eval_site_args(text, {}) if k == "empty"]
        if empties:
            raise Violation("not-created", f"{len(empties)} sites still empty\n{text}\n{r1.stdout[-1500:]}")
        r2 = drivers.run_pytest(d, ["--inline-snapshot=disable"])
        if r2.returncode != 0:
            raise Violation("disabled-session-failed",
                            f"rc={r2.returncode}\n--- after\n{text}\n{r2.stdout[-2500:]}")
        # a second look with the harness' own evaluation
        g, results, exec_error = drivers.run_disabled({"test_a.py": new})
        if exec_error is None and not case["ext"]:
            check_sites(prog, order, text, g["test_a.py"], "pytest",
                        extra_sites=len(case["opaque"]))
    finally:
        shutil.rmtree(d, ignore_errors=True)
    return {"nontrivial": True, "classes": ["ext"] * bool(case["ext"]) + ["opaque"] * bool(case["opaque"]),
            "sample": {"before": src, "after": text}}


ARMS = [
    HypArm("create_inline", lambda tier: _strategy(tier), check_inline, signature=signature,
           budget={"quick": 1500, "thorough": 100000}),
    HypArm("create_pytest", lambda tier: _pytest_case(tier), check_pytest, signature=signature,
           budget={"quick": 48, "thorough": 1500}, shrink=False),
]
