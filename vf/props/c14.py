"""C14 - each snapshot() call site has its own state; repeated evaluation aggregates."""

from __future__ import annotations

import ast
import shutil

import vf_prelude
from hypothesis import strategies as st

from .. import drivers, oracles
from ..models.categories import MISSING, model
from ..runner import HypArm, Violation
from .c05 import value_matches

ID = "C14"
LEVEL = "exploration"
RULE = (
    "interleave: 3-12 textual snapshot() sites in one or two files, placed in plain functions, two-per-line "
    "lambdas, two calls on one line of one function, nested functions, list comprehensions, helper functions "
    "receiving the snapshot, module-level names shared by the tests, calls whose returned objects are collected and "
    "compared only after the same call was evaluated again; operations <=, >=, in, [key]==, ==; each "
    "site owns a disjoint value range (site i only ever sees 1000*i..1000*i+999, and == sites one value) and "
    "is evaluated m >= 1 times in a generated interleaving replayed by a script loop. Oracle: an independent "
    "per-site aggregation of the script (max / min / distinct members / key map) must equal the value found at "
    "that site after a create run and, with a second script, after a fix+trim run on the tool-written text; no "
    "site may hold a value outside its range. reeval: the hand-written argument evaluates to a different value "
    "on a later evaluation (leaf, nested leaf, length, type, dict key set): a usage error must be raised and the "
    "site text must not change. inner_sites: conditional inner snapshot() calls inside an outer snapshot that is "
    "evaluated in a loop; after create+fix every inner call holds the value of its own branch, unreached ones are "
    "untouched. pytest: parametrized tests and several tests sharing a module-level site in a "
    "real session. non-trivial = >= 3 sites, two on one line or one reached through a helper, some site "
    "evaluated >= 2 times with another site's evaluation in between."
)
ASSUMPTIONS = ["arguments are deterministic except in the reeval arm"]

NS = dict(vars(vf_prelude))
STYLES = ["func", "lambda_pair", "same_line_pair", "nested", "comprehension", "helper", "module", "deferred"]
OPS = ["le", "ge", "in", "getitem", "eq"]


def cmp_src(op, x, S):
    return {"le": f"{x} <= {S}", "ge": f"{x} >= {S}", "in": f"{x} in {S}",
            "getitem": f"{x}[1] == {S}[{x}[0]]", "eq": f"{x} == {S}"}[op]


def render_file(sites, prev_texts, file_index):
    """sites: list of dicts {id, op, style}.  returns (source, site ids in source order)"""
    lines = ["from inline_snapshot import snapshot", "", "CMP = {}", "FLUSH = []", "",
             "def helper(op, x, s):",
             "    if op == 'le': assert x <= s",
             "    elif op == 'ge': assert x >= s",
             "    elif op == 'in': assert x in s",
             "    elif op == 'getitem': assert x[1] == s[x[0]]",
             "    else: assert x == s", ""]
    order = []

    def snap(sid):
        p = prev_texts.get(sid)
        return f"snapshot({p if p is not None else ''})"

    i = 0
    while i < len(sites):
        s = sites[i]
        sid, op, style = s["id"], s["op"], s["style"]
        pair = sites[i + 1] if i + 1 < len(sites) and style in ("lambda_pair", "same_line_pair") else None
        if style == "func" or (style in ("lambda_pair", "same_line_pair") and pair is None):
            lines += [f"def c{sid}(x):", f"    assert {cmp_src(op, 'x', snap(sid))}", f"CMP[{sid}] = c{sid}", ""]
            order.append(sid)
        elif style == "lambda_pair":
            a, b = s, pair
            lines += [f"CMP[{a['id']}] = lambda x: {cmp_src(a['op'], 'x', snap(a['id']))}; "
                      f"CMP[{b['id']}] = lambda x: {cmp_src(b['op'], 'x', snap(b['id']))}", ""]
            order += [a["id"], b["id"]]
            i += 1
        elif style == "same_line_pair":
            a, b = s, pair
            lines += [f"def c{a['id']}(which, x):",
                      f"    return ({cmp_src(a['op'], 'x', snap(a['id']))}) if which == 0 else ({cmp_src(b['op'], 'x', snap(b['id']))})",
                      f"CMP[{a['id']}] = lambda x: c{a['id']}(0, x)",
                      f"CMP[{b['id']}] = lambda x: c{a['id']}(1, x)", ""]
            order += [a["id"], b["id"]]
            i += 1
        elif style == "nested":
            lines += [f"def outer{sid}():", "    def inner(x):", f"        assert {cmp_src(op, 'x', snap(sid))}",
                      "    return inner", f"CMP[{sid}] = outer{sid}()", ""]
            order.append(sid)
        elif style == "comprehension":
            lines += [f"def c{sid}(x):", f"    assert all([{cmp_src(op, 'y', snap(sid))} for y in [x]])",
                      f"CMP[{sid}] = c{sid}", ""]
            order.append(sid)
        elif style == "helper":
            lines += [f"def c{sid}(x):", f"    helper({op!r}, x, {snap(sid)})", f"CMP[{sid}] = c{sid}", ""]
            order.append(sid)
        elif style == "deferred":
            # the call is evaluated now, the object it returns is compared later (after the next evaluation of
            # the same call, or when the test ends)
            lines += [f"P{sid} = []", f"def flush{sid}():", f"    for y, s in P{sid}:",
                      f"        assert {cmp_src(op, 'y', 's')}", f"    P{sid}.clear()",
                      f"def c{sid}(x):", f"    P{sid}.append((x, {snap(sid)}))", f"    if len(P{sid}) >= 3:",
                      f"        flush{sid}()", f"CMP[{sid}] = c{sid}", f"FLUSH.append(flush{sid})", ""]
            order.append(sid)
        elif style == "module":
            lines += [f"S{sid} = {snap(sid)}", f"def c{sid}(x):", f"    assert {cmp_src(op, 'x', f'S{sid}')}",
                      f"CMP[{sid}] = c{sid}", ""]
            order.append(sid)
        i += 1
    return lines, order


def render(case, prev_texts, script_key="script"):
    files = {}
    orders = {}
    nfiles = 2 if case["two_files"] else 1
    for f in range(nfiles):
        sites = [s for s in case["sites"] if s["file"] == f or nfiles == 1]
        lines, order = render_file(sites, prev_texts, f)
        ids = {s["id"] for s in sites}
        script = [(sid, x) for sid, x in case[script_key] if sid in ids]
        # split the script over two tests (module-level sites are thereby shared by the tests)
        half = len(script) // 2
        lines += [f"SCRIPT_A = {script[:half]!r}", f"SCRIPT_B = {script[half:]!r}", "",
                  "def test_a():", "    for sid, x in SCRIPT_A:", "        CMP[sid](x)",
                  "    for f in FLUSH:", "        f()", "",
                  "def test_b():", "    for sid, x in SCRIPT_B:", "        CMP[sid](x)",
                  "    for f in FLUSH:", "        f()", ""]
        name = f"test_f{f}.py"
        files[name] = "\n".join(lines) + "\n"
        orders[name] = order
    return files, orders


def value_for(site, k):
    base = 1000 * site["id"]
    if site["op"] == "eq":
        return base + 7
    if site["op"] == "getitem":
        return (k % 3, base + (k % 3))      # (key, value): one value per key
    return base + k


@st.composite
def _case(draw, tier):
    n = draw(st.sampled_from([3, 4, 5, 6, 8, 10, 12]))
    two = draw(st.booleans())
    sites = []
    for i in range(n):
        sites.append({"id": i, "op": draw(st.sampled_from(OPS)), "style": draw(st.sampled_from(STYLES)),
                      "file": draw(st.integers(0, 1)) if two else 0})
    if two and len({s["file"] for s in sites}) == 1:
        sites[0]["file"] = 1 - sites[0]["file"]
    sites.sort(key=lambda s: s["file"])

    def script():
        out = []
        for _ in range(draw(st.sampled_from([n, 2 * n, 3 * n, 4 * n]))):
            s = sites[draw(st.integers(0, n - 1))]
            out.append((s["id"], value_for(s, draw(st.integers(0, 20)))))
        return out

    return {"sites": sites, "two_files": two, "script": script(), "script2": script()}


def aggregate(case, script_key):
    ev = {s["id"]: [] for s in case["sites"]}
    byid = {s["id"]: s for s in case["sites"]}
    # execution order: per file (sorted by name), test_a first half then test_b second half == script order
    nfiles = 2 if case["two_files"] else 1
    for f in range(nfiles):
        ids = {s["id"] for s in case["sites"] if s["file"] == f or nfiles == 1}
        for sid, x in case[script_key]:
            if sid in ids:
                if byid[sid]["op"] == "getitem":
                    ev[sid].append((x[0], "eq", x[1]))
                else:
                    ev[sid].append(x)
    return ev


def in_range(site, v):
    base = 1000 * site["id"]

    def ok(x):
        return isinstance(x, int) and base <= x < base + 1000

    if v is MISSING:
        return True
    if site["op"] == "in":
        return all(ok(x) for x in v)
    if site["op"] == "getitem":
        return all(ok(x) for x in v.values())
    return ok(v)


def read_sites(files_after, orders):
    vals, texts = {}, {}
    for name, order in orders.items():
        text = files_after[name].decode()
        r = oracles.eval_site_args(text, dict(NS))
        t = oracles.site_arg_texts(text)
        if len(r) != len(order):
            raise Violation("site-count", f"{name}: {len(r)} sites, expected {len(order)}\n{text}")
        for pos, sid in enumerate(order):
            vals[sid] = r[pos]
            texts[sid] = t[pos]
    return vals, texts


def _run(files, flags, label):
    ses = drivers.run_inline(files, flags)
    src = "\n".join(f"# {k}\n{v if isinstance(v, str) else v.decode()}" for k, v in files.items())
    if not ses.ok():
        err = ses.exec_error or ses.collect_error or ses.apply_error
        raise Violation(f"session-exception:{type(err).__name__}", f"{label} {type(err).__name__}: {err}\n{src}")
    bad = {k: v for k, v in ses.test_results.items() if v is not None}
    if bad:
        k, v = next(iter(bad.items()))
        raise Violation(f"test-raised:{type(v).__name__}", f"{label} {k}: {type(v).__name__}: {v}\n{src}")
    return ses, src


def check_interleave(case):
    byid = {s["id"]: s for s in case["sites"]}
    files, orders = render(case, {})
    ses, src = _run(files, {"create"}, "create")
    vals, texts = read_sites(ses.files_after, orders)
    ev = aggregate(case, "script")
    prevs = {}
    after = "\n".join(f"# {k}\n{v.decode()}" for k, v in ses.files_after.items())
    for sid, s in byid.items():
        _c, want = model(s["op"], MISSING, ev[sid], {"create"})
        kind, got = vals[sid]
        got = MISSING if kind == "empty" else got
        if kind == "error":
            raise Violation("site-unreadable", f"site {sid}: {got}\n{after}")
        if not in_range(s, got):
            raise Violation("leak", f"site {sid} ({s['op']}, {s['style']}) holds {got!r}, outside its own range\n--- before\n{src}\n--- after\n{after}")
        if not value_matches(s["op"], got, want, ev[sid]):
            raise Violation(f"aggregation:{s['op']}",
                            f"site {sid} ({s['op']}, {s['style']}) holds {got!r}, script aggregates to {want!r}\n--- before\n{src}\n--- after\n{after}")
        prevs[sid] = got
    # second session on the tool-written text with another script
    prev_texts = {sid: (texts[sid] if prevs[sid] is not MISSING else None) for sid in byid}
    files2, orders2 = render(case, prev_texts, "script2")
    F = {"create", "fix", "trim"}
    ses2, src2 = _run(files2, F, "fix+trim")
    vals2, _ = read_sites(ses2.files_after, orders2)
    ev2 = aggregate(case, "script2")
    after2 = "\n".join(f"# {k}\n{v.decode()}" for k, v in ses2.files_after.items())
    for sid, s in byid.items():
        _c, want = model(s["op"], prevs[sid], ev2[sid], F)
        kind, got = vals2[sid]
        got = MISSING if kind == "empty" else got
        if not in_range(s, got):
            raise Violation("leak", f"site {sid} holds {got!r}, outside its own range\n--- before\n{src2}\n--- after\n{after2}")
        if not value_matches(s["op"], got, want, ev2[sid]):
            raise Violation(f"aggregation-2:{s['op']}",
                            f"site {sid} ({s['op']}, {s['style']}) holds {got!r}, model {want!r} (previous {prevs[sid]!r})\n--- before\n{src2}\n--- after\n{after2}")
    styles = {s["style"] for s in case["sites"]}
    seq = [sid for sid, _ in case["script"]]
    interleaved = any(seq[i] == seq[j] and any(seq[k] != seq[i] for k in range(i + 1, j))
                      for i in range(len(seq)) for j in range(i + 2, min(len(seq), i + 8)))
    nt = len(case["sites"]) >= 3 and bool(styles & {"lambda_pair", "same_line_pair", "helper"}) and interleaved
    return {"nontrivial": nt, "classes": sorted(styles) + (["two-files"] if case["two_files"] else []),
            "sample": {"files": files, "after": after}}


# ------------------------------------------------------------------------------ reeval arm

REEVAL = [
    # (argument expression using i, description)
    ("[1, i]", "leaf"), ("[[1, [i]]]", "nested-leaf"), ("[0] * (i + 1)", "length"),
    ("[1, 2] if i == 0 else (1, 2)", "type"), ("{'a': i}", "dict-value"), ("{i: 1}", "dict-key"),
    ("{'a': 1} if i == 0 else {'a': 1, 'b': 2}", "dict-length"), ("i", "toplevel"),
    ("(i, 'x')", "tuple-leaf"), ("'a' * (i + 1)", "str"), ("[1, 2] if i == 0 else [1, 2.5]", "leaf-type"),
    ("Point(x=i, y=2)", "dataclass-field"),
    # the later value is equal to the first one but an instance of a subclass of its type
    ("1 if i == 0 else True", "subclass-bool"), ("[0, 2] if i == 0 else [False, 2]", "nested-subclass-bool"),
    ("(1, 2) if i == 0 else NT(1, 2)", "subclass-namedtuple"), ("[1, 2] if i == 0 else MyList([1, 2])", "subclass-list"),
    ("{'a': 1} if i == 0 else OrderedDict({'a': 1})", "subclass-dict"),
    ("Point(x=1, y=2) if i == 0 else SubPoint(x=1, y=2)", "subclass-dataclass"),
]


@st.composite
def _reeval_case(draw, tier):
    idx = draw(st.integers(0, len(REEVAL) - 1))
    op = draw(st.sampled_from(["eq", "eq", "in", "le", "getitem"]))
    flags = draw(st.sampled_from([[], ["fix"], ["create", "fix", "trim", "update"], ["update"]]))
    return {"idx": idx, "op": op, "flags": flags, "equal_first": draw(st.booleans())}


def check_reeval(case):
    expr, what = REEVAL[case["idx"]]
    op = case["op"]
    cmp = {"eq": "x == snapshot(%s)", "in": "x in snapshot(%s)", "le": "x <= snapshot(%s)",
           "getitem": "x == snapshot(%s)['a']"}[op] % expr
    src = ("from inline_snapshot import snapshot\nfrom vf_prelude import *\n\nLOG = []\n\n\ndef test_a():\n"
           "    for i in range(2):\n"
           f"        x = {expr if case['equal_first'] else '[1, 2]'}\n"
           "        try:\n"
           f"            LOG.append({cmp})\n"
           "        except Exception as e:\n"
           "            LOG.append(type(e).__name__)\n")
    ses = drivers.run_inline({"test_a.py": src}, set(case["flags"]))
    if ses.exec_error is not None:
        raise Violation("exec-error", f"{ses.exec_error}\n{src}")
    log = ses.globals["test_a.py"]["LOG"]
    if len(log) != 2:
        raise Violation("log", f"{log}\n{src}")
    if log[1] != "UsageError":
        raise Violation(f"changed-argument-not-a-usage-error:{log[1]}",
                        f"argument `{expr}` ({what}) changed between evaluations; second evaluation gave {log[1]!r}, "
                        f"expected UsageError\n{src}")
    # (the error is what the property demands; whether an approved `fix` of the first, failing comparison is
    # still applied afterwards is not stated, so the text is only required to stay valid python)
    after = ses.files_after["test_a.py"].decode()
    try:
        ast.parse(after)
    except SyntaxError as e:
        raise Violation("unparsable", f"{e}\n--- before\n{src}\n--- after\n{after}")
    return {"nontrivial": True, "classes": [what, op], "sample": {"module": src, "log": [str(x) for x in log]}}


# ------------------------------------------------------------------------------ inner call sites


@st.composite
def _inner_case(draw, tier):
    n = draw(st.sampled_from([2, 3]))
    script = [draw(st.integers(0, n - 1)) for _ in range(draw(st.sampled_from([2, 3, 4, 6])))]
    return {"n": n, "script": script, "shape": draw(st.sampled_from(["list", "dict", "call"])),
            "prev": draw(st.sampled_from(["empty", "wrong", "right"]))}


def check_inner(case):
    """conditional inner snapshots (docs/eq_snapshot.md): n textual inner snapshot() calls inside one outer
    snapshot that is evaluated in a loop; every inner call must end up with the value of its own branch"""
    n = case["n"]
    val = lambda b: 100 * (b + 1)
    inner = {"empty": lambda b: "snapshot()", "wrong": lambda b: f"snapshot({val(b) + 1})",
             "right": lambda b: f"snapshot({val(b)})"}[case["prev"]]
    expr = inner(n - 1)
    for b in range(n - 2, -1, -1):
        expr = f"{inner(b)} if c == {b} else ({expr})"
    wrap = {"list": "[%s, 1]", "dict": "{'k': %s, 'j': 1}", "call": "Point(x=%s, y=1)"}[case["shape"]]
    obs = {"list": "[x, 1]", "dict": "{'k': x, 'j': 1}", "call": "Point(x=x, y=1)"}[case["shape"]]
    src = ("from inline_snapshot import snapshot\nfrom vf_prelude import *\n\n\ndef test_a():\n"
           f"    for c in {case['script']!r}:\n        x = 100 * (c + 1)\n"
           f"        assert {obs} == snapshot({wrap % ('(' + expr + ')')})\n")
    ses = drivers.run_inline({"test_a.py": src}, {"create", "fix"})
    if not ses.ok():
        err = ses.exec_error or ses.collect_error or ses.apply_error
        raise Violation(f"session-exception:{type(err).__name__}", f"{type(err).__name__}: {err}\n{src}")
    exc = ses.test_results.get("test_a.py::test_a")
    if exc is not None:
        raise Violation(f"test-raised:{type(exc).__name__}", f"{type(exc).__name__}: {exc}\n{src}")
    after = ses.files_after["test_a.py"].decode()
    calls = [c for c in oracles.all_snapshot_calls(ast.parse(after)) if c not in oracles.snapshot_calls(ast.parse(after))]
    tree = ast.parse(after)
    outer = oracles.snapshot_calls(tree)
    inner_calls = [c for c in oracles.all_snapshot_calls(tree) if all(c is not o for o in outer)]
    if len(inner_calls) != n:
        raise Violation("inner-site-count", f"{len(inner_calls)} inner sites after, {n} before\n{after}")
    used = set(case["script"])
    for b, c in enumerate(inner_calls):
        got = ast.literal_eval(c.args[0]) if c.args else None
        if b in used:
            if got != val(b):
                raise Violation("inner-site-value", f"inner site {b} holds {got!r}, its own branch observed {val(b)}\n--- before\n{src}\n--- after\n{after}")
        else:
            want = {"empty": None, "wrong": val(b) + 1, "right": val(b)}[case["prev"]]
            if got != want:
                raise Violation("inner-site-leak", f"inner site {b} was never reached but changed to {got!r}\n--- before\n{src}\n--- after\n{after}")
    switched = any(a != b for a, b in zip(case["script"], case["script"][1:]))
    return {"nontrivial": switched, "classes": ["inner", case["shape"], case["prev"]], "sample": {"before": src, "after": after}}


# ------------------------------------------------------------------------------ pytest arm


@st.composite
def _pytest_case(draw, tier):
    n = draw(st.integers(2, 5))
    params = draw(st.lists(st.integers(0, 50), min_size=2, max_size=6))
    ops = [draw(st.sampled_from(["le", "ge", "in"])) for _ in range(n)]
    return {"ops": ops, "params": params}


def check_pytest(case):
    lines = ["import pytest", "from inline_snapshot import snapshot", ""]
    for i, op in enumerate(case["ops"]):
        lines.append(f"S{i} = snapshot()")
    lines.append("")
    lines.append(f"@pytest.mark.parametrize('k', {case['params']!r})")
    lines.append("def test_param(k):")
    for i, op in enumerate(case["ops"]):
        lines.append(f"    assert {cmp_src(op, f'({1000 * i} + k)', 'snapshot()')}")
    lines.append("")
    for t in range(2):
        lines.append(f"def test_shared{t}():")
        for i, op in enumerate(case["ops"]):
            lines.append(f"    assert {cmp_src(op, str(1000 * i + 500 + t), f'S{i}')}")
        lines.append("")
    src = "\n".join(lines) + "\n"
    d = drivers.make_project({"test_a.py": src})
    try:
        r = drivers.run_pytest(d, ["--inline-snapshot=create"])
        text = r.files_after["test_a.py"].decode()
        vals = oracles.eval_site_args(text, {})
        n = len(case["ops"])
        ps = case["params"]
        for i, op in enumerate(case["ops"]):
            want_shared = {"le": 1000 * i + 501, "ge": 1000 * i + 500, "in": [1000 * i + 500, 1000 * i + 501]}[op]
            xs = [1000 * i + k for k in ps]
            d_ = []
            for x in xs:
                if x not in d_:
                    d_.append(x)
            want_param = {"le": max(xs), "ge": min(xs), "in": d_}[op]
            for pos, want, label in ((i, want_shared, "shared"), (n + i, want_param, "param")):
                kind, got = vals[pos]
                ok = kind == "value" and (sorted(got) == sorted(want) if op == "in" else got == want)
                if not ok:
                    raise Violation(f"pytest-aggregation:{label}",
                                    f"site {pos} ({op}) holds {got!r}, expected {want!r}\n--- before\n{src}\n--- after\n{text}\n{r.stdout[-1500:]}")
    finally:
        shutil.rmtree(d, ignore_errors=True)
    return {"nontrivial": True, "classes": ["pytest"], "sample": {"before": src, "after": text}}


ARMS = [
    HypArm("interleave", lambda tier: _case(tier), check_interleave, budget={"quick": 1200, "thorough": 80000}),
    HypArm("inner_sites", _inner_case, check_inner, budget={"quick": 200, "thorough": 5000}),
    HypArm("reeval", lambda tier: _reeval_case(tier), check_reeval, budget={"quick": 400, "thorough": 4000}),
    HypArm("pytest", lambda tier: _pytest_case(tier), check_pytest, budget={"quick": 32, "thorough": 400},
           shrink=False),
]
