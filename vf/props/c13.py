"""C13 - external storage stays consistent across any history of runs."""

from __future__ import annotations

import hashlib
import re
import shutil

from hypothesis import strategies as st

from .. import drivers
from ..runner import HypArm, Violation
from .c04 import PROMPT

ID = "C13"
LEVEL = "exploration"
RULE = (
    "histories: one project directory (hash-length in {1,2,3,12,64}, storage-dir default / relative / absolute, "
    "two test files) goes through a generated history of 3-10 steps drawn from add_test(data, suffix) / "
    "edit_data(test) / remove_test / unreference(test) / run_session(category subset, report|review+answers, or an "
    "inactive session: --inline-snapshot=disable / CI=true, all files | one file); the data pool holds str and bytes values incl. the empty one, the same data under two "
    "suffixes, and pairs whose SHA-256 share a 1-3 hex digit prefix (searched by the generator) so that short "
    "hash-lengths collide. The history is one generated value (it shrinks as a whole) interpreted against a real "
    "pytest process per session. After every step the storage listing and the external(...) references in the "
    "files are compared with a model map name -> bytes: (1) every stored name is sha256(content)[-new]+suffix; "
    "(2) a persisted file appears only if a test file references it at the end of that session; (3) after a "
    "session every -new file was outsourced by that very session; (4) a persisted file disappears only in a "
    "session whose approved set contains trim and only if no participating file references it; (5) a reference "
    "written by a session resolves to exactly one *persisted* file holding the outsourced bytes, or is ambiguous "
    "(several matches, only with colliding prefixes) - never to other data and never to nothing. api: "
    "DiscStorage/external lookups over directories with 0/1/2 files matching a prefix: 0 or >1 matches raise "
    "HashError, exactly 1 returns that file's bytes. non-trivial = >= 2 sessions with a data edit or an "
    "unreference in between, or a colliding-prefix configuration."
)
ASSUMPTIONS = ["each session is a real `python -m pytest` process; kernel-level atomicity of rename is assumed"]


def _pool():
    base = [("s", "hello"), ("s", ""), ("b", b"\x00\x01binary"), ("s", "hello"), ("b", b""), ("s", "line\nbreak\r\n"),
            ("s", "ünïcode 🐍")]
    # pairs sharing a 3-hex-digit prefix
    seen = {}
    pairs = []
    i = 0
    while len(pairs) < 2:
        d = f"collide-{i}"
        h = hashlib.sha256(d.encode()).hexdigest()[:3]
        if h in seen:
            pairs.append((seen[h], d))
            seen.pop(h)
        else:
            seen[h] = d
        i += 1
    for a, b in pairs:
        base += [("s", a), ("s", b)]
    return base


POOL = _pool()
SUFFIXES = [None, ".txt", ".png", ".bin", ".json"]


def data_bytes(i):
    kind, v = POOL[i]
    return v.encode("utf-8") if kind == "s" else v


def default_suffix(i):
    return ".txt" if POOL[i][0] == "s" else ".bin"


@st.composite
def _case(draw, tier):
    steps = []
    n = draw(st.sampled_from([3, 5, 7, 9, 10]))  # (sampled_from: not subject to hypothesis' small-first size ramp)
    from .c05 import flag_sets

    cats = flag_sets()
    steps.append(["add", draw(st.integers(0, 1)), draw(st.integers(0, len(POOL) - 1)), draw(st.integers(0, 4))])
    for _ in range(n):
        k = draw(st.sampled_from(["add", "add", "edit", "remove", "unref", "run", "run", "run"]))
        if k == "add":
            steps.append(["add", draw(st.integers(0, 1)), draw(st.integers(0, len(POOL) - 1)), draw(st.integers(0, 4))])
        elif k == "edit":
            steps.append(["edit", draw(st.integers(0, 7)), draw(st.integers(0, len(POOL) - 1))])
        elif k in ("remove", "unref"):
            steps.append([k, draw(st.integers(0, 7))])
        else:
            steps.append(["run", draw(st.one_of(cats, st.just(["create", "fix"]), st.just(["create", "fix", "trim"]))),
                          draw(st.sampled_from(["none", "none", "none", "report", "review", "review", "disable", "ci"])),
                          draw(st.text(alphabet="yn", max_size=4)), draw(st.sampled_from(["all", "all", 0, 1]))])
    steps.append(["run", ["create", "fix", "trim"], "none", "", "all"])
    return {"hash_length": draw(st.sampled_from([1, 2, 3, 12, 12, 64])),
            "storage": draw(st.sampled_from(["default", "default", "rel", "abs"])), "steps": steps}


NAME = re.compile(r"^([0-9a-f]{64})(-new)?(\.[A-Za-z0-9]*)$")
REF = re.compile(r'external\("([0-9a-fA-F]*)\*?(\.[a-zA-Z0-9]*)"\)')


class Project:
    def __init__(self, case):
        self.case = case
        self.dir = drivers.fresh_dir("c13")
        self.abs_storage = None
        toml = ["[tool.black]", "line-length = 88", "", "[tool.inline-snapshot]", f"hash-length = {case['hash_length']}"]
        if case["storage"] == "rel":
            toml.append('storage-dir = "tests/snaps"')
            self.storage = self.dir / "tests" / "snaps" / "external"
        elif case["storage"] == "abs":
            self.abs_storage = drivers.fresh_dir("c13store")
            toml.append(f'storage-dir = "{self.abs_storage}"')
            self.storage = self.abs_storage / "external"
        else:
            self.storage = self.dir / ".inline-snapshot" / "external"
        (self.dir / "pyproject.toml").write_text("\n".join(toml) + "\n")
        self.tests = []       # dicts: file, data, suffix, arg (source text of the snapshot argument), id
        self.next_id = 0
        self.headers = {0: "from inline_snapshot import snapshot, outsource\n\n", 1: "from inline_snapshot import snapshot, outsource\n\n"}

    def close(self):
        shutil.rmtree(self.dir, ignore_errors=True)
        if self.abs_storage is not None:
            shutil.rmtree(self.abs_storage, ignore_errors=True)

    def render(self, f):
        out = self.headers[f]
        for t in self.tests:
            if t["file"] != f:
                continue
            kind, v = POOL[t["data"]]
            sfx = "" if t["suffix"] is None else f", suffix={t['suffix']!r}"
            out += f"def test_e{t['id']}():\n    assert outsource({v!r}{sfx}) == snapshot({t['arg']})\n\n"
        return out

    def write(self):
        for f in (0, 1):
            p = self.dir / f"test_f{f}.py"
            if any(t["file"] == f for t in self.tests):
                p.write_text(self.render(f), encoding="utf-8")
            elif p.exists():
                p.unlink()

    def reload(self):
        """pick up what a session wrote: headers and snapshot arguments"""
        from .. import oracles

        for f in (0, 1):
            p = self.dir / f"test_f{f}.py"
            if not p.exists():
                continue
            text = p.read_text(encoding="utf-8")
            idx = text.find("def test_e")
            self.headers[f] = text[:idx] if idx >= 0 else text
            args = oracles.site_arg_texts(text)
            mine = [t for t in self.tests if t["file"] == f]
            if len(args) != len(mine):
                raise Violation("site-count", f"{len(args)} sites in file, {len(mine)} tests\n{text}")
            for t, a in zip(mine, args):
                t["arg"] = a

    def listing(self):
        if not self.storage.exists():
            return {}
        return {p.name: p.read_bytes() for p in self.storage.iterdir() if p.is_file() and p.name != ".gitignore"}

    def refs(self, files=(0, 1)):
        out = []
        for f in files:
            p = self.dir / f"test_f{f}.py"
            if p.exists():
                for m in REF.finditer(p.read_text(encoding="utf-8")):
                    out.append((f, m.group(1), m.group(2)))
        return out


def matches(listing, prefix, suffix):
    return [n for n in listing if n.startswith(prefix) and n.endswith(suffix) and len(n) >= len(prefix) + len(suffix)]


def check(case):
    pr = Project(case)
    trace = []
    sessions = 0
    edited_between = False
    dirty = False
    try:
        for step in case["steps"]:
            kind = step[0]
            if kind == "add":
                _, f, di, si = step
                pr.tests.append({"file": f, "data": di, "suffix": SUFFIXES[si], "arg": "", "id": pr.next_id})
                pr.next_id += 1
                trace.append(f"add test_e{pr.next_id - 1} file {f} data {POOL[di][1]!r} suffix {SUFFIXES[si]}")
                pr.write()
                continue
            if kind in ("edit", "remove", "unref"):
                if not pr.tests:
                    continue
                t = pr.tests[step[1] % len(pr.tests)]
                if kind == "edit":
                    t["data"] = step[2]
                    trace.append(f"edit test_e{t['id']} data {POOL[step[2]][1]!r}")
                elif kind == "remove":
                    pr.tests.remove(t)
                    trace.append(f"remove test_e{t['id']}")
                else:
                    t["arg"] = ""
                    trace.append(f"unreference test_e{t['id']}")
                dirty = True
                pr.write()
                continue
            # run a session
            _, cats, mode, answers, which = step
            files = (0, 1) if which == "all" else (which,)
            files = tuple(f for f in files if any(t["file"] == f for t in pr.tests))
            if not files:
                continue
            before = pr.listing()
            refs_before = set(pr.refs())
            env = None
            if mode == "disable":
                # an inactive session: nothing is approved, but outsource() still stores its data and the
                # leftovers of the previous session still have to go at its start
                cats, words = [], ["disable"]
            elif mode == "ci":
                env, words = {"CI": "true"}, list(cats)
                cats = []
            else:
                words = list(cats) + ([mode] if mode != "none" else [])
            args = (["--inline-snapshot=" + ",".join(words)] if words else []) + [f"test_f{f}.py" for f in files]
            stdin = ("\n".join(answers + "nnnnnnnn") + "\n").encode()
            r = drivers.run_pytest(pr.dir, args, stdin=stdin, env=env)
            sessions += 1
            if sessions >= 2 and dirty:
                edited_between = True
            trace.append(f"session {' '.join(args)}{' CI=true' if env else ''} answers={answers!r} -> rc {r.returncode}")
            ctx = lambda: "history:\n  " + "\n  ".join(trace) + f"\nhash-length={case['hash_length']} storage={case['storage']}\n" + r.stdout[-1500:]
            if "INTERNALERROR" in r.stdout or r.returncode not in (0, 1):
                raise Violation("session-broken", ctx() + r.stderr[-1500:])
            F = set(cats)
            if mode == "review":
                for cat, ans in zip(PROMPT.findall(r.stdout), answers + "nnnnnnnn"):
                    if ans == "y":
                        F.add(cat)
            pr.reload()
            after = pr.listing()
            outsourced = {}
            for t in pr.tests:
                if t["file"] in files:
                    b = data_bytes(t["data"])
                    sfx = t["suffix"] or default_suffix(t["data"])
                    outsourced[(hashlib.sha256(b).hexdigest(), sfx)] = b
            # (1) names and contents
            for name, content in after.items():
                m = NAME.match(name)
                if not m:
                    raise Violation("storage-name", f"unexpected file {name!r} in storage\n" + ctx())
                if hashlib.sha256(content).hexdigest() != m.group(1):
                    raise Violation("storage-content", f"{name}: content does not hash to its name\n" + ctx())
            # (3) -new files belong to this session
            for name in after:
                m = NAME.match(name)
                if m.group(2) and (m.group(1), m.group(3)) not in outsourced:
                    raise Violation("stale-new-file", f"{name} survived the start of this session\n" + ctx())
            refs_now = pr.refs()
            # (2) appearance of persisted files
            for name in after:
                m = NAME.match(name)
                if m.group(2) or name in before:
                    continue
                if not any(name.startswith(p) and name.endswith(s) for _f, p, s in refs_now):
                    raise Violation("persisted-without-reference", f"{name} was persisted but no test file references it\n" + ctx())
            # (4) disappearance of persisted files
            for name in before:
                m = NAME.match(name)
                if m.group(2) or name in after:
                    continue
                if "trim" not in F:
                    raise Violation("persisted-removed-without-trim", f"{name} disappeared, approved={sorted(F)}\n" + ctx())
                if any(name.startswith(p) and name.endswith(s) for f, p, s in refs_now if f in files):
                    raise Violation("referenced-external-removed", f"{name} removed although a participating file references it\n" + ctx())
            # (5) references written by this session resolve
            for f, p, s in refs_now:
                if (f, p, s) in refs_before:
                    continue
                ms = matches(after, p, s)
                if len(ms) == 0:
                    raise Violation("dangling-reference", f'external("{p}*{s}") was written but nothing matches\n' + ctx())
                if len(ms) > 1:
                    if len(p) >= 12:
                        raise Violation("ambiguous-long-prefix", f"{p}*{s} matches {ms}\n" + ctx())
                    continue
                name = ms[0]
                m = NAME.match(name)
                if m.group(2):
                    raise Violation("reference-to-unpersisted-file",
                                    f'external("{p}*{s}") only matches {name}, which the next session start removes\n' + ctx())
                if (m.group(1), m.group(3)) in outsourced and after[name] != outsourced[(m.group(1), m.group(3))]:
                    raise Violation("reference-resolves-to-other-data", f"{name}\n" + ctx())
            dirty = False
        nt = (sessions >= 2 and edited_between) or case["hash_length"] <= 3
        return {"nontrivial": nt, "classes": [f"hl={case['hash_length']}", case["storage"], f"sessions={min(sessions, 5)}"],
                "extra": {"sessions": sessions}, "sample": {"history": trace}}
    finally:
        pr.close()


# ---------------------------------------------------------------------------------- api arm


@st.composite
def _api_case(draw, tier):
    names = draw(st.lists(st.tuples(st.integers(0, len(POOL) - 1), st.sampled_from([".txt", ".bin", ".png"]),
                                    st.booleans()), max_size=4))
    q = draw(st.integers(0, len(POOL) - 1))
    return {"files": [list(n) for n in names], "query": q, "qsuffix": draw(st.sampled_from([".txt", ".bin", ".png"])),
            "plen": draw(st.sampled_from([0, 1, 2, 3, 12, 64]))}


def check_api(case):
    from inline_snapshot import _external
    from inline_snapshot._global_state import snapshot_env

    d = drivers.fresh_dir("c13api")
    try:
        store = _external.DiscStorage(d / "external")
        content = {}
        for di, sfx, new in case["files"]:
            b = data_bytes(di)
            name = hashlib.sha256(b).hexdigest() + ("-new" if new else "") + sfx
            store.save(name, b)
            content[name] = b
        qh = hashlib.sha256(data_bytes(case["query"])).hexdigest()
        prefix = qh[: case["plen"]]
        sfx = case["qsuffix"]
        ms = matches(content, prefix, sfx)
        with snapshot_env() as state:
            state.storage = store
            ext = _external.external(f"{prefix}*{sfx}" if case["plen"] < 64 else f"{prefix}{sfx}")
            try:
                got = ext._load_value()
                err = None
            except _external.HashError as e:
                got, err = None, e
            except Exception as e:
                raise Violation(f"lookup-raises:{type(e).__name__}", f"{case}: {e}")
        if len(ms) == 1:
            if err is not None or got != content[ms[0]]:
                raise Violation("unique-match-not-returned", f"{case}: matches {ms}, got {got!r} err {err}")
        else:
            if err is None:
                raise Violation("missing-or-ambiguous-prefix-resolved",
                                f"{case}: {len(ms)} matches {ms} but lookup returned {got!r}")
        return {"nontrivial": len(case["files"]) >= 2, "classes": [f"matches={min(len(ms), 2)}"],
                "sample": {"files": sorted(content), "query": f"{prefix}*{sfx}", "matches": ms}}
    finally:
        shutil.rmtree(d, ignore_errors=True)


ARMS = [
    HypArm("histories", lambda tier: _case(tier), check, budget={"quick": 96, "thorough": 2500}, shrink=False),
    HypArm("api", lambda tier: _api_case(tier), check_api, budget={"quick": 800, "thorough": 20000}),
]
