"""C06 - without approval, snapshot(x) behaves like x."""

from __future__ import annotations

import shutil

from hypothesis import strategies as st

from .. import drivers, gen_render as gr, gen_values as gv
from ..runner import HypArm, Violation

ID = "C06"
LEVEL = "exploration"
RULE = (
    "differential: one snapshot site holding a stored value v (rendered with Is(...) and inner "
    "snapshot(...) wrappers at random depths; local variable or re-evaluated through a function call) and "
    "a sequence of 1-8 comparisons x == s, s == x, x <= s, s >= x, x >= s, s <= x, x in s, s[k] == x, "
    "s[k] containing x with x equal / mutated / of another type; the same module is executed (a) in an "
    "active in-process session without flags and (b) with snapshot and Is replaced by the identity; the "
    "logged outcome (bool or exception type) of every comparison must be identical, except that a "
    "comparison whose operation differs from the first one used on the site must log TypeError; "
    "comparisons that raise on the plain value are outside the scope and skipped. sessions: real pytest "
    "sessions check `snapshot(v) is v` under disable / a CI variable / xdist -n 2 / xfail, and that the "
    "per-test pass/fail vector without flags equals that under --inline-snapshot=disable. conditional: one "
    "== site evaluated in a loop / through a function whose hand-written argument holds user-controlled parts "
    "that change per evaluation - `snapshot(a) if c == 0 else snapshot(b)` (documented conditional inner "
    "snapshots) and `Is(ALT[c])` - inside lists, tuples, dicts, nested containers and constructor calls, with "
    "and without a star-expression (`*BASE`, `**DBASE`, `**{...}`) in the same container; the "
    "logged results must equal those of the plain values. non-trivial = "
    ">= 2 comparisons with a False outcome among them, or a nested Is/inner snapshot, or a mixed-operation "
    "sequence."
)
ASSUMPTIONS = [
    "arguments evaluate to the same value each time; bounds over totally ordered families; `in` on list "
    "displays, [key] on dict displays (the shapes the tool itself writes)",
]

KINDS = {"eq": "eq", "eq_r": "eq", "le": "le", "le_r": "le", "ge": "ge", "ge_r": "ge", "in": "in",
         "item_eq": "getitem", "item_in": "getitem"}


def expr(form, X, S, K=None):
    return {
        "eq": f"{X} == {S}", "eq_r": f"{S} == {X}",
        "le": f"{X} <= {S}", "le_r": f"{S} >= {X}",
        "ge": f"{X} >= {S}", "ge_r": f"{S} <= {X}",
        "in": f"{X} in {S}",
        "item_eq": f"{S}[{K}] == {X}", "item_in": f"{X} in {S}[{K}]",
    }[form]


class _W:
    """renders a description with Is()/snapshot() wrappers"""

    def __init__(self, draw, p):
        self.draw = draw
        self.p = p
        self.n = 0

    def wrap(self, text, allow=True):
        if allow and self.draw(st.integers(0, 99)) < self.p:
            self.n += 1
            return self.draw(st.sampled_from(["Is(%s)", "snapshot(%s)", "Is(%s)"])) % text
        return text

    def render(self, d, top=True):
        k = d[0]
        if k == "list":
            t = "[" + ", ".join(self.render(x, False) for x in d[1]) + "]"
        elif k == "tuple":
            items = [self.render(x, False) for x in d[1]]
            t = "(" + ", ".join(items) + ("," if len(items) == 1 else "") + ")"
        elif k == "dict":
            t = "{" + ", ".join(f"{gv.natural(a)}: {self.render(b, False)}" for a, b in d[1]) + "}"
        elif k == "call" and d[1] in ("Point", "Box", "APoint", "NT", "TNT"):
            t = d[1] + "(" + ", ".join(f"{n}={self.render(v, False)}" for n, v in d[2]) + ")"
        else:
            t = gv.natural(d)
        return self.wrap(t, allow=not top)


@st.composite
def _case(draw, tier):
    main = draw(st.sampled_from(["eq", "eq", "le", "ge", "in", "getitem"]))
    small = gv.values(tier, 6, opaque=False)
    events = []
    if main == "eq":
        v = draw(small)
        xs = st.one_of(st.just(v), gr.mutate(v, tier), gv.hashable_leaves(tier))
    elif main in ("le", "ge"):
        fam = draw(gv.ordered_family(tier))
        v = fam[0]
        xs = st.one_of(st.sampled_from(fam), gv.hashable_leaves(tier))
    elif main == "in":
        items = draw(st.lists(gv.values(tier, 3, opaque=False), min_size=0, max_size=4))
        v = ["list", items]
        xs = st.one_of(st.sampled_from(items) if items else gv.hashable_leaves(tier), gv.hashable_leaves(tier))
    else:
        keys = draw(st.lists(st.one_of(st.integers(0, 3).map(lambda i: ["int", i]),
                                       st.text(alphabet="ab", max_size=2).map(lambda s: ["str", s])),
                             min_size=1, max_size=3, unique_by=repr))
        kv = [[k, draw(st.one_of(small, st.lists(gv.hashable_leaves(tier), max_size=3).map(lambda xs: ["list", xs])))]
              for k in keys]
        v = ["dict", kv]
        xs = None
    forms_main = {"eq": ["eq", "eq_r"], "le": ["le", "le_r"], "ge": ["ge", "ge_r"], "in": ["in"],
                  "getitem": ["item_eq", "item_in"]}[main]
    other_forms = [f for f in KINDS if KINDS[f] != main and KINDS[f] != "getitem"]
    n = draw(st.sampled_from([1, 2, 3, 4, 5, 6, 8]))
    mixed = draw(st.integers(0, 3)) == 0
    for j in range(n):
        if mixed and j > 0 and draw(st.integers(0, 2)) == 0:
            form = draw(st.sampled_from(other_forms))
            x = draw(gv.hashable_leaves(tier))
            events.append({"form": form, "x": x})
            continue
        form = draw(st.sampled_from(forms_main))
        if main == "getitem":
            k, child = draw(st.sampled_from(v[1]))
            if form == "item_in" and child[0] != "list":
                form = "item_eq"
            if form == "item_in":
                x = draw(st.one_of(st.sampled_from(child[1]) if child[1] else gv.hashable_leaves(tier),
                                   gv.hashable_leaves(tier)))
            else:
                x = draw(st.one_of(st.just(child), gr.mutate(child, tier), gv.hashable_leaves(tier)))
            events.append({"form": form, "x": x, "k": k})
        else:
            events.append({"form": form, "x": draw(xs)})
    w = _W(draw, draw(st.sampled_from([0, 0, 25, 50])) if main in ("eq", "getitem") else 0)
    if main == "getitem":
        # user-controlled parts are documented for == comparisons (docs/eq_snapshot.md): a child that
        # is used with `in` is rendered without Is()/snapshot() wrappers
        in_keys = {repr(e["k"]) for e in events if e["form"] == "item_in"}
        parts = []
        for k, child in v[1]:
            ct = gv.natural(child) if repr(k) in in_keys else w.render(child, False)
            parts.append(f"{gv.natural(k)}: {ct}")
        text = "{" + ", ".join(parts) + "}"
    else:
        text = w.render(v)
    if main == "in" and not text.startswith("["):
        text = gv.natural(v)
    return {"v": v, "text": text, "wrapped": w.n, "events": events, "main": main,
            "reeval": draw(st.booleans())}


PRELUDE = '''from inline_snapshot import snapshot, Is
from vf_prelude import *

LOG = []


def outcome(f):
    try:
        r = f()
    except Exception as e:
        return type(e).__name__
    return r if isinstance(r, bool) else ("nonbool", repr(r))


'''


def build_module(case):
    lines = [PRELUDE + "def test_a():"]
    if case["reeval"]:
        lines.append("    def s_():")
        lines.append(f"        return snapshot({case['text']})")
        S = "s_()"
    else:
        lines.append(f"    s = snapshot({case['text']})")
        S = "s"
    for e in case["events"]:
        X = gv.render(e["x"])
        K = gv.natural(e["k"]) if "k" in e else None
        lines.append(f"    LOG.append(outcome(lambda: {expr(e['form'], X, S, K)}))")
    return "\n".join(lines) + "\n"


def check_diff(case):
    src = build_module(case)
    # (b) plain values
    g, results, exec_error = drivers.run_disabled({"test_a.py": drivers.stub_source(src)})
    if exec_error is not None or any(v is not None for v in results.values()):
        raise RuntimeError(f"harness: plain module does not run: {exec_error} {results}\n{src}")
    plain = list(g["test_a.py"]["LOG"])
    # (a) active, no flags
    ses = drivers.run_inline({"test_a.py": src}, ())
    if ses.exec_error is not None:
        raise Violation("exec-error", f"{type(ses.exec_error).__name__}: {ses.exec_error}\n{src}")
    exc = ses.test_results.get("test_a.py::test_a")
    if exc is not None:
        raise Violation("test-raised", f"{type(exc).__name__}: {exc}\n{src}")
    active = list(ses.globals["test_a.py"]["LOG"])
    if len(active) != len(plain):
        raise Violation("log-length", f"{active} vs {plain}\n{src}")
    first_kind = KINDS[case["events"][0]["form"]]
    n_false = 0
    mixed = False
    child_kind = {}
    for j, e in enumerate(case["events"]):
        kind = KINDS[e["form"]]
        if isinstance(plain[j], str):
            # raises on the plain value: outside the scope, and so is everything that follows on
            # this site (a comparison that raised may have recorded its operand)
            break
        if kind == "getitem" and first_kind == "getitem":
            # a sub-snapshot is a snapshot of its own: its first operation fixes its kind
            ck = child_kind.setdefault(repr(e["k"]), e["form"])
            if ck != e["form"]:
                mixed = True
                if active[j] != "TypeError":
                    raise Violation("mixed-operation-not-rejected",
                                    f"comparison {j} ({e['form']}) on a sub-snapshot first used with {ck} "
                                    f"logged {active[j]!r}, expected TypeError\n{src}")
                continue
        if kind != first_kind:
            mixed = True
            if active[j] != "TypeError":
                raise Violation("mixed-operation-not-rejected",
                                f"comparison {j} ({e['form']}) after a first {first_kind} logged {active[j]!r}, expected TypeError\n{src}")
            continue
        if active[j] != plain[j]:
            raise Violation(f"differs:{e['form']}",
                            f"comparison {j} ({e['form']}): snapshot says {active[j]!r}, plain value says {plain[j]!r}\n{src}")
        if plain[j] is False:
            n_false += 1
    nt = (len(case["events"]) >= 2 and n_false >= 1) or case["wrapped"] > 0 or mixed
    return {"nontrivial": nt,
            "classes": [case["main"], "wrapped" if case["wrapped"] else "plain", "reeval" if case["reeval"] else "var"]
            + (["mixed"] if mixed else []) + (["has-false"] if n_false else []),
            "sample": {"module": src, "log": [repr(x) for x in active]}}


# ----------------------------------------------------------------------------- sessions


@st.composite
def _sess_case(draw, tier):
    vals = draw(st.lists(gv.values(tier, 5, opaque=False), min_size=1, max_size=3))
    mode = draw(st.sampled_from(["disable", "ci", "xdist", "xfail", "vector"]))
    wrong = draw(st.lists(st.booleans(), min_size=len(vals), max_size=len(vals)))
    civar = draw(st.sampled_from(["CI", "GITHUB_ACTIONS", "TRAVIS", "BUILD_ID", "TEAMCITY_VERSION"]))
    # the xfail marker may sit on the function, on the class or on the module
    return {"vals": vals, "mode": mode, "wrong": wrong, "civar": civar,
            "xfail_at": draw(st.sampled_from(["func", "class", "module"])),
            # an xfail test that runs *before* the others in a session that is disabled as a whole
            "xfail_first": draw(st.sampled_from([False, True]))}


def check_sessions(case):
    mode = case["mode"]
    lines = ["import pytest", "from inline_snapshot import snapshot", "from vf_prelude import *", ""]
    if mode == "vector":
        for i, (d, w) in enumerate(zip(case["vals"], case["wrong"])):
            stored = gv.natural(d) if not w else gv.natural(["list", [d, ["int", 1]]])
            lines += [f"def test_{i}():", f"    assert {gv.render(d)} == snapshot({stored})", ""]
    else:
        at = case.get("xfail_at", "func") if mode == "xfail" else None
        ind = ""
        if mode in ("disable", "ci", "xdist") and case.get("xfail_first"):
            lines += ["@pytest.mark.xfail", "def test_00_expected_failure():", "    assert 1 == snapshot(2)", ""]
        if at == "module":
            lines += ["pytestmark = pytest.mark.xfail(reason='module')", ""]
        if at == "class":
            lines += ["@pytest.mark.xfail", "class TestX:"]
            ind = "    "
        for i, d in enumerate(case["vals"]):
            if at == "func":
                lines.append("@pytest.mark.xfail")
            arg = "self" if at == "class" else ""
            lines += [f"{ind}def test_{i}({arg}):", f"{ind}    v = {gv.render(d)}", f"{ind}    s = snapshot(v)",
                      f"{ind}    open('ident.log', 'a').write(str(s is v) + '\\n')",
                      f"{ind}    assert s is v, type(s)"]
            if mode == "xfail":
                lines.append(f"{ind}    assert False")
            lines.append("")
    src = "\n".join(lines) + "\n"
    d = drivers.make_project({"test_a.py": src})
    try:
        if mode == "vector":
            r1 = drivers.run_pytest(d, [])
            r2 = drivers.run_pytest(d, ["--inline-snapshot=disable"])
            v1 = {k: ("passed" if v == "passed" else "failed") for k, v in r1.outcomes.items()}
            v2 = {k: ("passed" if v == "passed" else "failed") for k, v in r2.outcomes.items()}
            if v1 != v2 or not v1:
                raise Violation("pass-fail-vector", f"no flags: {r1.outcomes}\ndisable: {r2.outcomes}\n{src}\n{r1.stdout[-1500:]}")
        else:
            args, env = [], {}
            if mode == "disable":
                args = ["--inline-snapshot=disable"]
            elif mode == "ci":
                env = {case["civar"]: "1"}
            elif mode == "xdist":
                args = ["-n", "2"]
            r = drivers.run_pytest(d, args, env=env)
            ident = (d / "ident.log").read_text().split() if (d / "ident.log").exists() else []
            if len(ident) != len(case["vals"]) or any(x != "True" for x in ident):
                raise Violation(f"not-identity:{mode}:{case.get('xfail_at', '')}" if mode == "xfail" else f"not-identity:{mode}",
                                f"`snapshot(v) is v` gave {ident}\n{src}\n{r.stdout[-1500:]}")
            if mode == "xfail":
                bad = {k: v for k, v in r.outcomes.items() if v != "skipped"}  # xfailed is reported as skipped in junit
                if bad or not r.outcomes:
                    raise Violation("xfail-not-disabled", f"{r.outcomes}\n{src}\n{r.stdout[-2000:]}")
            else:
                r.outcomes.pop("test_a::test_00_expected_failure", None)
                bad = {k: v for k, v in r.outcomes.items() if v != "passed"}
                if bad or not r.outcomes or r.returncode != 0:
                    raise Violation(f"not-identity:{mode}", f"rc={r.returncode} {r.outcomes}\n{src}\n{r.stdout[-2000:]}")
    finally:
        shutil.rmtree(d, ignore_errors=True)
    return {"nontrivial": True, "classes": [mode], "sample": {"mode": mode, "module": src}}


# ----------------------------------------------------------------------------- conditional parts


@st.composite
def _cond_case(draw, tier):
    """one == site evaluated in a loop; some positions of its hand-written argument are user-controlled and
    select a different inner snapshot / Is() value per iteration (docs/eq_snapshot.md, conditional snapshots)"""
    leaf = gv.values(tier, 3, opaque=False)
    n = draw(st.sampled_from([1, 2, 3, 4]))
    elems = []
    for _ in range(n):
        kind = draw(st.sampled_from(["plain", "cond", "cond", "is", "cond3", "fstr"]))
        if kind == "plain":
            elems.append(["plain", draw(leaf)])
        elif kind == "cond":
            elems.append(["cond", draw(leaf), draw(leaf)])
        elif kind == "cond3":
            elems.append(["cond3", draw(leaf), draw(leaf), draw(leaf)])
        elif kind == "fstr":
            # an f-string (documented to work like Is(f"...")) whose value changes per evaluation
            elems.append(["fstr"] + [["str", "p" + draw(st.sampled_from(["a", "b", "c"]))] for _ in range(3)])
        else:
            elems.append(["is", draw(leaf), draw(leaf), draw(leaf)])
    shape = draw(st.sampled_from(["list", "tuple", "dict", "nested", "call", "bare"]))
    if shape == "call":
        elems = elems[:2]
    if shape == "bare":
        elems = [e for e in elems if e[0] != "plain"][:1] or [["cond", draw(leaf), draw(leaf)]]
    iters = []
    for _ in range(draw(st.sampled_from([1, 2, 3, 4, 5]))):
        c = draw(st.sampled_from([0, 1, 2]))
        wrong = draw(st.sampled_from([None, None, None, 0, 1, 2, 3]))
        iters.append([c, wrong])
    return {"elems": elems, "shape": shape, "iters": iters,
            "place": draw(st.sampled_from(["loop", "func", "param"])),
            # a star-expression in the same container (the container is then left to the user as a whole)
            "star": draw(st.sampled_from([False, False, True]))}


def _pick(e, c):
    if e[0] == "plain":
        return e[1]
    if e[0] == "cond":
        return e[1] if c == 0 else e[2]
    return e[1 + c]


def _cond_text(e, i):
    if e[0] == "plain":
        return gv.natural(e[1])
    if e[0] == "cond":
        return f"(snapshot({gv.natural(e[1])}) if c == 0 else snapshot({gv.natural(e[2])}))"
    if e[0] == "cond3":
        return (f"(snapshot({gv.natural(e[1])}) if c == 0 else snapshot({gv.natural(e[2])}) if c == 1 "
                f"else snapshot({gv.natural(e[3])}))")
    if e[0] == "fstr":
        return f'f"p{{ALT{i}[c]}}"'
    return f"Is(ALT{i}[c])"


def _shape(shape, parts, star=None):
    """star: None | "src" (star-expression in the snapshot argument) | "val" (the same content spelled out)"""
    pre = {"src": ["*BASE"], "val": ["1", "2"], None: []}[star]
    dpre = {"src": ["**DBASE"], "val": ["'a': 1", "'b': 2"], None: []}[star]
    if shape == "list":
        return "[" + ", ".join(pre + parts) + "]"
    if shape == "tuple":
        return "(" + ", ".join(pre + parts) + ("," if len(pre + parts) == 1 else "") + ")"
    if shape == "dict":
        return "{" + ", ".join(dpre + [f"'k{i}': {p}" for i, p in enumerate(parts)]) + "}"
    if shape == "nested":
        return "[[" + ", ".join(pre + parts) + "], {'t': (" + parts[0] + ",)}]"
    if shape == "call":
        kw = [f"{n}={p}" for n, p in zip("xy", parts)]
        if star == "src":
            kw[0] = "**{'x': " + parts[0] + "}"
        return "Point(" + ", ".join(kw) + ")"
    return parts[0]


def build_cond_module(case):
    elems, shape = case["elems"], case["shape"]
    lines = [PRELUDE.rstrip("\n"), ""]
    for i, e in enumerate(elems):
        if e[0] == "is":
            lines.append(f"ALT{i} = [{', '.join(gv.render(x) for x in e[1:4])}]")
        if e[0] == "fstr":
            lines.append(f"ALT{i} = [{', '.join(repr(x[1][1:]) for x in e[1:4])}]")
    star = case.get("star", False)
    if star:
        lines += ["BASE = [1, 2]", "DBASE = {'a': 1, 'b': 2}"]
    text = _shape(shape, [_cond_text(e, i) for i, e in enumerate(elems)], "src" if star else None)
    xs = []
    for c, wrong in case["iters"]:
        vals = [gv.render(_pick(e, c)) for e in elems]
        if wrong is not None and wrong < len(vals):
            vals[wrong] = "'<other>'"
        xs.append(f"({c}, {_shape(shape, vals, 'val' if star else None)})")
    lines.append(f"CASES = [{', '.join(xs)}]")
    lines.append("")
    if case["place"] == "func":
        lines += ["def cmp(c, x):", f"    return x == snapshot({text})", "", "def test_a():",
                  "    for c, x in CASES:", "        LOG.append(outcome(lambda: cmp(c, x)))"]
    elif case["place"] == "param":
        lines += ["def body(c, x):", f"    LOG.append(outcome(lambda: x == snapshot({text})))", "",
                  "def test_a():", "    for c, x in CASES:", "        body(c, x)"]
    else:
        lines += ["def test_a():", "    for c, x in CASES:",
                  f"        LOG.append(outcome(lambda: x == snapshot({text})))"]
    return "\n".join(lines) + "\n"


def cond_signature(case):
    """known finding F64: an f-string whose value differs between two evaluations raises the usage error"""
    cs = [c for c, _w in case["iters"]]
    for e in case["elems"]:
        if e[0] == "fstr" and len({repr(e[1 + c]) for c in cs}) > 1:
            return {"fstring-reevaluated-with-other-value"}
    return set()


def check_cond(case):
    src = build_cond_module(case)
    g, results, exec_error = drivers.run_disabled({"test_a.py": drivers.stub_source(src)})
    if exec_error is not None or any(v is not None for v in results.values()):
        raise RuntimeError(f"harness: plain module does not run: {exec_error} {results}\n{src}")
    plain = list(g["test_a.py"]["LOG"])
    ses = drivers.run_inline({"test_a.py": src}, ())
    if ses.exec_error is not None:
        raise Violation("exec-error", f"{type(ses.exec_error).__name__}: {ses.exec_error}\n{src}")
    exc = ses.test_results.get("test_a.py::test_a")
    if exc is not None:
        raise Violation("test-raised", f"{type(exc).__name__}: {exc}\n{src}")
    active = list(ses.globals["test_a.py"]["LOG"])
    if any(isinstance(x, str) for x in plain):
        return {"nontrivial": False, "classes": ["plain-raises"]}
    if active != plain:
        raise Violation("differs:conditional",
                        f"snapshot says {active!r}, plain values say {plain!r}\n{src}")
    cs = [c for c, _w in case["iters"]]
    switched = any(a != b for a, b in zip(cs, cs[1:]))
    has_cond = any(e[0] in ("cond", "cond3") for e in case["elems"])
    return {"nontrivial": switched and has_cond,
            "classes": [case["shape"] + ("+star" if case.get("star") else ""), case["place"],
                        "switched" if switched else "constant",
                        "inner-snapshot" if has_cond else "is-only"] + (["has-false"] if False in plain else []),
            "sample": {"module": src, "log": [repr(x) for x in active]}}


ARMS = [
    HypArm("differential", lambda tier: _case(tier), check_diff,
           budget={"quick": 3000, "thorough": 200000}, shards={"quick": 8, "thorough": 64}),
    HypArm("conditional", lambda tier: _cond_case(tier), check_cond, signature=cond_signature,
           budget={"quick": 800, "thorough": 40000}, shards={"quick": 8, "thorough": 64}),
    HypArm("sessions", lambda tier: _sess_case(tier), check_sessions,
           budget={"quick": 48, "thorough": 1500}, shrink=False),
]
