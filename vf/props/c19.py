"""C19 - the public testing helpers reproduce what a real session does."""

from __future__ import annotations

import contextlib
import io
import shutil

from hypothesis import strategies as st

from .. import drivers, gen_programs as gp, gen_values as gv
from ..runner import HypArm, Violation
from .c05 import flag_sets, signature as c05_signature

ID = "C19"
LEVEL = "exploration"
RULE = (
    "generated projects without externals inside what run_inline documents (module-level test_* functions, no "
    "fixtures / parametrize): 1-2 files, 1-4 sites per file over all five operations with noisy previous "
    "values or none, asserting bodies (failing tests abort), tests that raise or fail before / after the other tests of their file, bounds whose stored value cannot be ordered against the observed one, values needing HasRepr, and "
    "fix+trim pending inside one container; every category subset F. Three-way differential: "
    "Example(files).run_inline(['--inline-snapshot=F']), Example(files).run_pytest(['--inline-snapshot=F']) and a "
    "real `python -m pytest --inline-snapshot=F` session in a directory holding the same files: the changed "
    "files must be identical across the three; run_inline's reported_categories must equal the category "
    "sections of a real `--inline-snapshot=report,F` session for create/fix/trim (update only when the real "
    "session shows an update diff, because the plugin hides empty diffs). helper_expectations: a user's test that "
    "calls Example(...).run_inline(flags, reported_categories=snapshot(X) / changed_files=snapshot(Y)) inside an "
    "ordinary session without flags: a wrong X / Y must fail that test, a right one must not, whatever flags the "
    "example itself runs with. non-trivial = >= 2 pending "
    "categories, or a raising test, or a value outside the builtins."
)
ASSUMPTIONS = ["the three drivers get byte-identical files; the real session runs without pyproject.toml like Example does"]


class Capture:
    """compares equal to anything and remembers it"""

    def __init__(self):
        self.value = None
        self.seen = False

    def __eq__(self, other):
        self.value = other
        self.seen = True
        return True

    def __ne__(self, other):
        self.value = other
        self.seen = True
        return False


@st.composite
def _case(draw, tier):
    nfiles = draw(st.sampled_from([1, 2]))
    files = []
    for _ in range(nfiles):
        prog = draw(gp.program_with_prev(tier, max_sites=4, styles=("assert",), max_leaves=6,
                                         places=("assert", "var", "module", "helper", "lambda")))
        files.append({"prog": prog, "raise_at_end": draw(st.integers(0, 4)) == 0,
                      # a test that fails before every other test of the file runs
                      "fail_first": draw(st.sampled_from([None, None, "raise", "assert"])),
                      # a bound whose stored value cannot be ordered against the observed one (a changed type),
                      # followed by another pending snapshot in the same test
                      "unorderable": draw(st.sampled_from([None, None, "le", "ge", "le_loop"]))})
    # the helpers promise to be independent of a CI variable in the calling environment
    # a [tool.black] section that changes how fragments are formatted; consecutive cases of one harness
    # process run under different options, like a developer's test suite that calls run_inline for several
    # example projects in one process
    black_cfg = draw(st.sampled_from([None, None, "skip-string-normalization = true", "line-length = 30",
                                      "skip-magic-trailing-comma = true\nline-length = 40"]))
    return {"files": files, "F": draw(flag_sets()), "ci_env": draw(st.sampled_from([None, None, "CI", "GITHUB_ACTIONS"])),
            "black": black_cfg}


def signature(case):
    sigs = set()
    for f in case["files"]:
        sigs |= set(c05_signature({"prog": f["prog"]}))
    return sigs


def render(case):
    out = {}
    for i, f in enumerate(case["files"]):
        src, _ = gp.render_program(f["prog"])
        # HasRepr import is what the plugin adds by itself: do not pre-import it here
        src = src.replace("from inline_snapshot import snapshot, HasRepr\n", "from inline_snapshot import snapshot\n", 1)
        if f.get("fail_first"):
            stmt = "raise ValueError('first')" if f["fail_first"] == "raise" else "assert 1 == 2"
            src = src.replace("def test_0():", f"def test_00_fails_first():\n    {stmt}\n\n\ndef test_0():", 1)
        if f.get("unorderable"):
            body = {"le": "    assert 5 <= snapshot('a')\n", "ge": "    assert 'b' >= snapshot(3)\n",
                    "le_loop": "    for v in (1, 5, 2):\n        assert v <= snapshot('a')\n"}[f["unorderable"]]
            src += f"\ndef test_zy_unorderable():\n{body}    assert 2 == snapshot(1)\n    assert [1, 2] == snapshot()\n"
        if f["raise_at_end"]:
            src += "\ndef test_zz_raises():\n    raise ValueError('boom')\n"
        out[f"test_f{i}.py"] = src
    if case.get("black"):
        out["pyproject.toml"] = "[tool.black]\n" + case["black"] + "\n"
    # the same values in every project: whatever the helpers remember from an earlier project in the same
    # process (another [tool.black] section) must not leak into this one
    out["test_common.py"] = ("from inline_snapshot import snapshot\n\n\ndef test_common():\n"
                             "    assert 'hello world' == snapshot()\n"
                             "    assert ['aaaaaaaaaaaaaaa', 'bbbbbbbbbbbbbbbbbb', {'k': 'cccccccccccc'}] == snapshot()\n")
    return out


CATS = {"Create snapshots": "create", "Fix snapshots": "fix", "Trim snapshots": "trim", "Update snapshots": "update"}


def report_categories(report):
    return {c for head, c in CATS.items() if head in report}


def check(case):
    from inline_snapshot.testing import Example

    files = render(case)
    F = case["F"]
    args = ["--inline-snapshot=" + ",".join(F)] if F else []
    show = "\n".join(f"# {k}\n{v}" for k, v in files.items())
    sink = io.StringIO()

    # 1. run_inline
    cats, changed_i, raises = Capture(), Capture(), Capture()
    try:
        with contextlib.redirect_stdout(sink), contextlib.redirect_stderr(sink):
            Example(dict(files)).run_inline(args, reported_categories=cats, changed_files=changed_i, raises=raises)
    except Exception as e:
        raise Violation(f"run_inline-raised:{type(e).__name__}", f"F={F} {type(e).__name__}: {e}\n{show}")
    drivers.cleanup_caches()

    # 2. run_pytest
    changed_p, rc = Capture(), Capture()
    import os

    ci = case.get("ci_env")
    saved = os.environ.get(ci) if ci else None
    try:
        if ci:
            os.environ[ci] = "true"
        with contextlib.redirect_stdout(sink), contextlib.redirect_stderr(sink):
            Example(dict(files)).run_pytest(args, changed_files=changed_p, returncode=rc)
    except Exception as e:
        raise Violation(f"run_pytest-raised:{type(e).__name__}", f"F={F} {type(e).__name__}: {e}\n{show}")
    finally:
        if ci:
            if saved is None:
                os.environ.pop(ci, None)
            else:
                os.environ[ci] = saved

    # 3. real session
    d = drivers.make_project(files, pyproject=None)
    try:
        r = drivers.run_pytest(d, args, plugins_off=False)
        if "INTERNALERROR" in r.stdout or r.returncode not in (0, 1):
            raise Violation("real-session-internal-error", f"F={F} rc={r.returncode}\n{show}\n{r.stdout[-2500:]}\n{r.stderr[-1500:]}")
        changed_r = {k: v.decode("utf-8") for k, v in r.files_after.items()
                     if k in files and k.endswith(".py") and v.decode("utf-8") != files[k]}
        d2 = drivers.make_project(files, pyproject=None)
        try:
            r2 = drivers.run_pytest(d2, ["--inline-snapshot=" + ",".join(["report"] + list(F))])
        finally:
            shutil.rmtree(d2, ignore_errors=True)
    finally:
        shutil.rmtree(d, ignore_errors=True)

    ci = dict(changed_i.value or {})
    cp = dict(changed_p.value or {})
    if ci != changed_r:
        raise Violation("run_inline-differs-from-real-session",
                        f"F={F}\n{_diff(ci, changed_r, 'run_inline', 'real session')}\n--- project\n{show}")
    if cp != changed_r:
        raise Violation("run_pytest-differs-from-real-session",
                        f"F={F}\n{_diff(cp, changed_r, 'run_pytest', 'real session')}\n--- project\n{show}")
    inline_cats = set(cats.value or [])
    real_cats = report_categories(r2.report)
    if inline_cats & {"create", "fix", "trim"} != real_cats & {"create", "fix", "trim"} or (
            "update" in real_cats and "update" not in inline_cats):
        raise Violation("reported-categories-differ",
                        f"run_inline reports {sorted(inline_cats)}, a real report session shows {sorted(real_cats)}\n{show}\n{r2.report[-2500:]}")
    vals = [e[2] if s["op"] == "getitem" else e for f in case["files"] for s in f["prog"]["sites"] for e in s["events"]]
    nt = len(inline_cats) >= 2 or bool(raises.value) or any(gv.kinds(v) - gv.BUILTIN_KINDS for v in vals)
    return {"nontrivial": nt, "classes": ["F=" + ",".join(F)] + sorted("pending:" + c for c in inline_cats)
            + (["raises"] if raises.value else []),
            "sample": {"F": F, "files": files, "changed": changed_r}}


def _diff(a, b, na, nb):
    import difflib

    out = []
    for k in sorted(set(a) | set(b)):
        x, y = a.get(k, "<unchanged>"), b.get(k, "<unchanged>")
        if x != y:
            out.append(f"{k}:")
            out += list(difflib.unified_diff(x.splitlines(), y.splitlines(), na, nb, lineterm="", n=1))
    return "\n".join(out)[:3000]


# ----------------------------------------------------------------------------- expectations of the helpers

INNER = {
    "fix": ("def test_a():\n    assert 1 == snapshot(2)\n", ["fix"]),
    "create": ("def test_a():\n    assert 1 == snapshot()\n", ["create"]),
    "update": ("def test_a():\n    assert 1 == snapshot(0+1)\n", ["update"]),
    "trim": ("def test_a():\n    assert 1 in snapshot([1, 2])\n", ["trim"]),
}


@st.composite
def _expect_case(draw, tier):
    return {"inner": draw(st.sampled_from(sorted(INNER))), "flags": draw(st.sampled_from(["fix", "create", "update", "trim", "create,fix", ""])),
            "right": draw(st.booleans()), "what": draw(st.sampled_from(["reported_categories", "changed_files"]))}


def check_expectations(case):
    """a test of a user that calls Example(...).run_inline(..., reported_categories=snapshot(X) / changed_files=
    snapshot(Y)) inside an ordinary session without flags: a wrong expectation must fail that test, a right one
    must not - whatever flags the *example* runs with"""
    body, cats = INNER[case["inner"]]
    inner_src = "from inline_snapshot import snapshot\n\n\n" + body
    F = set(case["flags"].split(",")) - {""}
    # what the example really does is taken from a plain run of the helper itself
    import io

    from inline_snapshot.testing import Example

    with contextlib.redirect_stdout(io.StringIO()), contextlib.redirect_stderr(io.StringIO()):
        try:
            ref = Example({"test_x.py": inner_src}).run_inline(["--inline-snapshot=" + case["flags"]] if case["flags"] else [])
        except Exception as e:
            return {"nontrivial": False, "classes": ["inner-raises:" + type(e).__name__]}
    real_cats = sorted(set(cats))
    changed = {} if ref.files["test_x.py"] == inner_src else {"test_x.py": ref.files["test_x.py"]}
    if case["what"] == "reported_categories":
        expect = real_cats if case["right"] else (["create"] if real_cats != ["create"] else ["fix"])
        kw = f"reported_categories=snapshot({expect!r})"
    else:
        expect = changed if case["right"] else {"test_x.py": "something else\n"}
        kw = f"changed_files=snapshot({expect!r})"
    args = ["--inline-snapshot=" + case["flags"]] if case["flags"] else []
    outer = ("from inline_snapshot import snapshot\nfrom inline_snapshot.testing import Example\n\n\n"
             f"INNER = {inner_src!r}\n\n\ndef test_outer():\n"
             f"    Example({{'test_x.py': INNER}}).run_inline({args!r}, {kw})\n")
    with contextlib.redirect_stdout(io.StringIO()), contextlib.redirect_stderr(io.StringIO()):
        ses = drivers.run_inline({"test_outer.py": outer}, set())
    if ses.exec_error is not None:
        raise RuntimeError(f"harness: {ses.exec_error}\n{outer}")
    exc = ses.test_results.get("test_outer.py::test_outer")
    if case["right"] and exc is not None:
        raise Violation("right-expectation-fails", f"{type(exc).__name__}: {exc}\n{outer}")
    if not case["right"] and exc is None:
        raise Violation("wrong-expectation-passes",
                        f"the example runs with {case['flags']!r}; {kw} is wrong but the test of the user passed\n{outer}")
    return {"nontrivial": not case["right"] and bool(F & {"fix", "create", "update"}),
            "classes": ["expectations", case["what"], "right" if case["right"] else "wrong"], "sample": {"outer": outer}}


ARMS = [HypArm("helper_expectations", _expect_case, check_expectations, budget={"quick": 96, "thorough": 600}),
        HypArm("three_way", lambda tier: _case(tier), check, signature=signature,
               budget={"quick": 48, "thorough": 3000}, shrink=False)]
