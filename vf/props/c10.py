"""C10 - parts the user controls are never rewritten."""

from __future__ import annotations

import ast

from hypothesis import strategies as st

from .. import drivers, gen_render as gr, gen_values as gv, oracles
from ..models.lcs import common_prefix, common_suffix
from ..runner import HypArm, Violation
from .c05 import flag_sets

ID = "C10"
LEVEL = "exploration"
RULE = (
    "a container (list, tuple, dict display, dataclass / attrs / namedtuple call; nested one level) mixes "
    "managed elements (noisy text such as 0+1) with user-controlled ones - Is(V), f-strings f\"..{V}\", nested "
    "snapshot(...), dirty-equals expressions (stand-in package), and star-expressions - at generated positions; "
    "every user-controlled expression is textually unique (it names a module-level variable or carries a tag). "
    "The observed value is derived element-wise: same / changed (unique new value; for user-controlled parts a "
    "value that makes the comparison fail) / deleted, plus inserted elements; all 16 approved sets. Oracle: (1) "
    "each user-controlled source segment occurs in the rewritten argument verbatim at most once, survivors keep "
    "their relative order; (2) it *must* survive where the property decides it: under a surviving dict key / "
    "keyword, inside the equal common prefix / suffix of a sequence, and in a same-length sequence whose "
    "non-prefix/suffix middle has no equal pair (replacement rule) - even if that keeps the test failing; (3) a "
    "container holding a star-expression keeps its whole text; (4) with create+fix approved and all "
    "user-controlled parts correct the rewritten test passes with inline-snapshot inactive, otherwise managed "
    "entries under surviving keys evaluate to the observed values; (5) a nested snapshot( keeps its wrapper "
    "unless its holding element was removed. The comparison is executed once, twice in a loop (the argument "
    "is evaluated again and user-controlled slots are re-bound) or never (then only `update` may touch the "
    "text, and never a user-controlled part or a star container). Arm default_nested: Is(V) inside a tuple / list / constructor call that is the value of a field whose default is such a "
    "container (the argument as a whole may be equal to the default): Is(V) survives every approved set. Arm star_getitem: `snapshot({**COMMON, ...})[key]` "
    "with generated keys / values / approved sets: the dict display keeps its whole text. non-trivial = >= 1 user-controlled and >= 1 managed sibling with "
    "a pending change in the same container."
)
ASSUMPTIONS = [
    "dirty-equals is not installed: a stand-in package exposing DirtyEquals/IsInt/IsStr/AnyThing drives that branch",
    "an f-string is compared with str values only (docs: it works like Is(f\"...\"))",
]

_NO = object()
CALL_DEFAULTS = {("Point", "y"): 0, ("Box", "items"): [], ("Box", "name"): "box", ("Box", "meta"): {},
                 ("APoint", "b"): [], ("APoint", "c"): 5, ("NT", "b"): 0}

UKINDS = ["is", "fstr", "snap", "dirty", "is", "dirty"]


@st.composite
def _elem(draw, idx, depth, tier):
    """one element: {"type", "old" (desc of the runtime value of the old expression), "text", "tag", "op", "new"}"""
    t = draw(st.sampled_from(["m", "m", "m", "u", "u", "nested", "nested"] if depth == 0 else ["m", "m", "u", "u"]))
    op = draw(st.sampled_from(["same", "same", "changed", "deleted"]))
    fresh = ["int", 9000 + idx]
    if t == "m":
        # mostly values that are unique to this element (so that the alignment is decidable), sometimes
        # small colliding ones
        uniq = draw(st.sampled_from([True, True, False]))
        b = 100 * idx if uniq else 0
        old = draw(st.one_of(st.integers(0, 20).map(lambda i: ["int", b + i]),
                             st.text(alphabet="abc", max_size=3).map(lambda s: ["str", (f"e{idx}" if uniq else "") + s]),
                             st.lists(st.integers(0, 5).map(lambda i: ["int", b + i]), max_size=3).map(lambda xs: ["list", xs])))
        text = draw(gr.noisy(old, draw(st.sampled_from([0, 1, 2]))))
        return {"type": "m", "old": old, "text": text, "op": op, "new": fresh if op == "changed" else old}
    if t == "nested":
        sub = draw(_container(depth + 1, tier, base=idx * 10))
        return {"type": "nested", "sub": sub, "op": draw(st.sampled_from(["same", "same", "deleted"]))}
    kind = draw(st.sampled_from(UKINDS))
    if kind == "is":
        old = draw(st.one_of(st.integers(0, 20).map(lambda i: ["int", i]), st.just(["list", [["int", 1]]])))
        return {"type": "is", "old": old, "var": f"V{idx}", "text": f"Is(V{idx})", "op": op,
                "new": fresh if op == "changed" else old}
    if kind == "fstr":
        s = draw(st.text(alphabet="xyz", min_size=1, max_size=3))
        return {"type": "fstr", "old": ["str", "p" + s], "var": f"V{idx}", "varval": ["str", s],
                "text": f'f"p{{V{idx}}}"', "op": op,
                "new": ["str", f"q{idx}"] if op == "changed" else ["str", "p" + s]}
    if kind == "snap":
        old = draw(st.one_of(st.integers(0, 20).map(lambda i: ["int", i]), st.just(["list", [["int", 1], ["int", 2]]])))
        if draw(st.integers(0, 3)) == 0 and op != "deleted":
            # an inner snapshot that is still empty: it accepts (and has to record) whatever is observed
            return {"type": "snap", "old": old, "text": "snapshot()", "op": "same", "new": old, "empty": True}
        return {"type": "snap", "old": old, "text": f"snapshot({gv.natural(old)})", "op": op,
                "new": fresh if op == "changed" else old}
    cls = draw(st.sampled_from(["IsInt", "IsStr", "AnyThing"]))
    match = {"IsInt": ["int", 5 + idx], "IsStr": ["str", f"s{idx}"], "AnyThing": ["none"]}[cls]
    nomatch = {"IsInt": ["str", f"n{idx}"], "IsStr": ["int", 7000 + idx], "AnyThing": None}[cls]
    if op == "changed" and nomatch is None:
        op = "same"
    return {"type": "dirty", "text": f"{cls}(t={idx})", "op": op, "new": nomatch if op == "changed" else match,
            "old": match}


@st.composite
def _container(draw, depth, tier, base=0):
    kind = draw(st.sampled_from(["list", "tuple", "dict", "call", "list", "dict"] if depth == 0 else
                                ["list", "tuple", "dict", "call", "call"]))
    n = draw(st.sampled_from([1, 2, 3, 4, 5] if depth == 0 else [1, 2, 3]))
    if kind == "call":
        cls = draw(st.sampled_from(["Box", "Point", "APoint", "NT"]))
        fields = {"Box": ["items", "name", "meta"], "Point": ["x", "y"], "APoint": ["a", "b", "c"], "NT": ["a", "b"]}[cls]
        elems = []
        for j, f in enumerate(fields):
            e = draw(_elem(base + j + 1, depth, tier))
            if e["type"] == "nested" or e["op"] == "deleted":
                e = {"type": "m", "old": ["int", j], "text": str(j), "op": "same", "new": ["int", j]}
            e["key"] = f
            elems.append(e)
        return {"kind": "call", "cls": cls, "elems": elems, "inserts": [], "star": None}
    elems = []
    for j in range(n):
        e = draw(_elem(base + j + 1, depth, tier))
        if kind == "dict":
            e["key"] = draw(st.sampled_from([["str", f"k{j}"], ["int", j]]))
        elems.append(e)
    inserts = []
    # half of the containers are position-stable (nothing inserted or removed): there every changed
    # element is a replacement in place and the fate of a user-controlled part is decidable
    stable = draw(st.booleans())
    if stable:
        def unchanged_fresh(e):
            if e["type"] == "dirty":
                e["op"] = "same"
                e["new"] = e["old"]
            elif e["type"] != "nested":
                e["op"] = "changed"
                if e["type"] == "fstr":
                    e["new"] = ["str", "q" + e["var"]]
                else:
                    e["new"] = ["int", 9500 + base + len(elems)]
            else:
                e["op"] = "same"

        for e in elems:
            if e["op"] == "deleted":
                unchanged_fresh(e)
    # collisions: the new value of one element is the old value of another one (an inner snapshot holding 1 next
    # to an element that becomes 1), so that an alignment by value and the positions disagree
    cands = [e for e in elems if e["type"] in ("m", "is", "snap") and e["op"] != "deleted"]
    if len(cands) >= 2 and draw(st.integers(0, 3)) == 0:
        a, b = draw(st.permutations(cands))[:2]
        if a["old"] != b["old"] and not (a["type"] == "m" and a["old"][0] != b["old"][0]):
            a["op"], a["new"] = "changed", b["old"]
    for _ in range(0 if stable else draw(st.integers(0, 2))):
        pos = draw(st.integers(0, n))
        v = ["int", 8000 + base + len(inserts)]
        inserts.append([pos, v, ["str", f"new{base}{len(inserts)}"]])
    star = None
    if depth == 0 and kind in ("list", "tuple", "dict") and draw(st.integers(0, 5)) == 0:
        star = draw(st.integers(0, n))
    return {"kind": kind, "elems": elems, "inserts": inserts, "star": star}


def _strategy(tier):
    # mode: the comparison is executed once / twice (the argument is evaluated again) / never (only the text of the
    # snapshot can be updated)
    return st.builds(lambda c, F, mode: {"c": c, "F": F, "mode": mode}, _container(0, tier), flag_sets(),
                     st.sampled_from(["once", "once", "once", "twice", "twice", "unused"]))


# ---------------------------------------------------------------------------- rendering


def render_old(c, decls):
    """source text of the old container; collects variable declarations"""
    parts = []
    for e in c["elems"]:
        if e["type"] == "nested":
            t = render_old(e["sub"], decls)
        else:
            t = e["text"]
            if e["type"] == "is":
                decls.append(f"{e['var']} = {gv.render(e['old'])}")
            elif e["type"] == "fstr":
                decls.append(f"{e['var']} = {gv.render(e['varval'])}")
        if c["kind"] == "dict":
            t = f"{gv.natural(e['key'])}: {t}"
        elif c["kind"] == "call":
            t = f"{e['key']}={t}"
        parts.append(t)
    if c.get("star") is not None:
        st_text = "**{}" if c["kind"] == "dict" else "*[]"
        parts.insert(min(c["star"], len(parts)), st_text)
    if c["kind"] == "list":
        return "[" + ", ".join(parts) + "]"
    if c["kind"] == "tuple":
        return "(" + ", ".join(parts) + ("," if len(parts) == 1 else "") + ")"
    if c["kind"] == "dict":
        return "{" + ", ".join(parts) + "}"
    return c["cls"] + "(" + ", ".join(parts) + ")"


def render_new(c):
    """harness rendering (independent) of the observed value"""
    items = []
    for j, e in enumerate(c["elems"]):
        for pos, v, k in c["inserts"]:
            if pos == j:
                items.append((k, gv.render(v)))
        if e["op"] == "deleted":
            continue
        t = render_new(e["sub"]) if e["type"] == "nested" else gv.render(e["new"])
        items.append((e.get("key"), t))
    for pos, v, k in c["inserts"]:
        if pos >= len(c["elems"]):
            items.append((k, gv.render(v)))
    if c["kind"] == "list":
        return "list([" + ", ".join(t for _k, t in items) + "])"
    if c["kind"] == "tuple":
        return "tuple([" + ", ".join(t for _k, t in items) + "])"
    if c["kind"] == "dict":
        return "dict([" + ", ".join(f"({gv.render(k)}, {t})" for k, t in items) + "])"
    return f"{c['cls']}(**dict([" + ", ".join(f"({k!r}, {t})" for k, t in items) + "]))"


def unmanaged_segments(c, out, path=""):
    for j, e in enumerate(c["elems"]):
        if e["type"] == "nested":
            unmanaged_segments(e["sub"], out, f"{path}/{j}")
        elif e["type"] in ("is", "fstr", "dirty"):
            out.append(e["text"])


def all_correct(c):
    for e in c["elems"]:
        if e["type"] == "nested":
            if not all_correct(e["sub"]):
                return False
        elif e["type"] in ("is", "fstr", "dirty"):
            if e["op"] == "changed":
                return False
            if e["op"] == "deleted" and c["kind"] in ("list", "tuple"):
                # a removed element next to an inserted one is aligned as a replacement: the
                # user-controlled expression then stays and keeps the comparison failing
                return False
    return True


def has_pending(c):
    if c["inserts"]:
        return True
    for e in c["elems"]:
        if e["type"] == "nested":
            if e["op"] == "deleted" or has_pending(e["sub"]):
                return True
        elif e["op"] != "same":
            return True
    return False


def count_u(c):
    n = 0
    for e in c["elems"]:
        if e["type"] == "nested":
            n += count_u(e["sub"])
        elif e["type"] != "m":
            n += 1
    return n + (1 if c.get("star") is not None else 0)


def must_survive(c, out, star_above=False):
    """segments that the property lets us decide must survive (when fix is approved or not)"""
    if c.get("star") is not None:
        return  # handled by the whole-text rule
    kind = c["kind"]
    n = len(c["elems"])

    def eq_pos(e):
        if e["type"] == "nested":
            return e["op"] == "same" and not has_pending(e["sub"])
        return e["op"] == "same"

    if kind in ("dict", "call"):
        for e in c["elems"]:
            if e["op"] == "deleted":
                continue
            if kind == "call" and e["type"] != "nested":
                # a keyword whose new value is the field's default is dropped as a whole by `update`
                # (removed together with the element that holds it): nothing to demand
                dflt = CALL_DEFAULTS.get((c["cls"], e["key"]), _NO)
                if dflt is not _NO and gv.build(e["new"]) == dflt:
                    continue
            if e["type"] == "nested":
                must_survive(e["sub"], out)
            elif e["type"] in ("is", "fstr", "dirty"):
                out.append(e["text"])
        return
    # sequences: decide on the values, exactly like the documented alignment (common prefix, then common
    # suffix of the remainders, replacement when the middles have equal length and no equal pair)
    class Unknown:
        """a nested container that holds a dirty-equals matcher: its equality is not modelled"""

    def value_of(cc, side):
        """python value of a (nested) container on the old / new side, or Unknown"""
        items = []
        for j, e in enumerate(cc["elems"]):
            if side == "new":
                for pos, v, k in cc["inserts"]:
                    if pos == j:
                        items.append((k, gv.build(v)))
                if e["op"] == "deleted":
                    continue
            if e["type"] == "nested":
                v = value_of(e["sub"], side)
                if v is Unknown:
                    return Unknown
            elif e["type"] == "dirty" and side == "old":
                return Unknown
            else:
                v = gv.build(e["old"] if side == "old" else e["new"])
            items.append((e.get("key"), v))
        if side == "new":
            for pos, v, k in cc["inserts"]:
                if pos >= len(cc["elems"]):
                    items.append((k, gv.build(v)))
        if cc["kind"] == "list":
            return [v for _k, v in items]
        if cc["kind"] == "tuple":
            return tuple(v for _k, v in items)
        if cc["kind"] == "dict":
            return {(gv.build(k) if isinstance(k, list) else k): v for k, v in items}
        return gv.CLASSES[cc["cls"]](**{k: v for k, v in items})

    def old_val(j, e):
        if e["type"] == "nested":
            return ("val", value_of(e["sub"], "old"))
        if e["type"] == "dirty":
            return ("dirty", e["text"].split("(")[0])
        return ("val", gv.build(e["old"]))

    def new_val(j, e):
        if e["type"] == "nested":
            return ("val", value_of(e["sub"], "new"))
        return ("val", gv.build(e["new"]))

    def val(d):
        return ("val", gv.build(d))

    def veq3(a, b):
        """three-valued: True / False / None (unknown); a is the old side"""
        if a[0] == "dirty":
            v = b[1]
            if v is Unknown:
                return None
            return {"IsInt": type(v) is int, "IsStr": type(v) is str, "AnyThing": True}[a[1]]
        if a[1] is Unknown or b[1] is Unknown:
            return None
        try:
            return bool(a[1] == b[1])
        except Exception:
            return None

    def veq(a, b):
        return veq3(a, b) is True

    old_vals = [old_val(j, e) for j, e in enumerate(c["elems"])]
    new_vals = []
    for j, e in enumerate(c["elems"]):
        for pos, v, _k in c["inserts"]:
            if pos == j:
                new_vals.append(val(v))
        if e["op"] != "deleted":
            new_vals.append(new_val(j, e))
    for pos, v, _k in c["inserts"]:
        if pos >= n:
            new_vals.append(val(v))
    p = common_prefix(old_vals, new_vals, veq)
    if p == len(old_vals) == len(new_vals):
        s = 0
    else:
        s = common_suffix(old_vals, new_vals, p, veq)
    idxs = set(range(p)) | set(range(n - s, n))
    mid_old = old_vals[p:n - s]
    mid_new = new_vals[p:len(new_vals) - s]
    replaced = set()
    if len(mid_old) == len(mid_new) and all(veq3(a, b) is False for a in mid_old for b in mid_new):
        replaced = set(range(p, n - s))
    # position-stable sequence whose only equal pairs are the in-place ones: the longest common
    # subsequence is unique (the equal positions), every other position is a replacement in place
    if (not c["inserts"] and not any(x["op"] == "deleted" for x in c["elems"]) and len(old_vals) == len(new_vals)
            and all(veq3(old_vals[i], new_vals[j]) is False for i in range(n) for j in range(n) if i != j)
            and all(veq3(old_vals[i], new_vals[i]) is not None for i in range(n))):
        replaced = set(range(n)) - idxs
    for i in sorted(idxs | replaced):
        e = c["elems"][i]
        if e["type"] == "nested":
            if i in idxs:
                must_survive(e["sub"], out)
            else:
                # replaced position: only when the counterpart is this very container (same kind, edited)
                # (the counterpart at this position is the edited container itself when nothing was
                # inserted or removed in this sequence)
                if not c["inserts"] and not any(x["op"] == "deleted" for x in c["elems"]) and e["op"] != "deleted":
                    must_survive(e["sub"], out)
        elif e["type"] in ("is", "fstr", "dirty"):
            out.append(e["text"])


def seq_positions_stable(c):
    """no element of a sequence is inserted or removed anywhere (alignment is then position by position
    only if there are no equal values to confuse it; used to bound rule 4)"""
    if c["kind"] in ("list", "tuple") and (c["inserts"] or any(e["op"] == "deleted" for e in c["elems"])):
        return False
    return all(seq_positions_stable(e["sub"]) for e in c["elems"] if e["type"] == "nested")


def check(case):
    c, F = case["c"], case["F"]
    decls = []
    old_text = render_old(c, decls)
    src = ("from inline_snapshot import snapshot, Is\nfrom dirty_equals import IsInt, IsStr, AnyThing\n"
           "from vf_prelude import *\n\n" + "\n".join(decls) + "\n\n\ndef test_a():\n")
    mode = case.get("mode", "once")
    if mode == "twice":
        src += (f"    ok = []\n    for _ in range(2):\n        ok.append({render_new(c)} == snapshot({old_text}))\n"
                "    assert all(ok)\n")
    elif mode == "unused":
        src += f"    s = snapshot({old_text})\n"
    else:
        src += f"    assert {render_new(c)} == snapshot({old_text})\n"
    try:
        ast.parse(src)
    except SyntaxError as e:
        raise RuntimeError(f"harness: {e}\n{src}")
    import warnings

    with warnings.catch_warnings():
        warnings.simplefilter("ignore")
        ses = drivers.run_inline({"test_a.py": src}, set(F))
    if not ses.ok():
        err = ses.exec_error or ses.collect_error or ses.apply_error
        tb = getattr(ses, "apply_tb", "") or getattr(ses, "collect_tb", "")
        raise Violation(f"session-exception:{type(err).__name__}", f"F={F} {type(err).__name__}: {err}\n{tb[-700:]}\n{src}")
    exc = ses.test_results.get("test_a.py::test_a")
    if exc is not None and not isinstance(exc, AssertionError):
        raise Violation(f"test-raised:{type(exc).__name__}", f"F={F} {type(exc).__name__}: {exc}\n{src}")
    after = ses.files_after["test_a.py"].decode("utf-8")
    try:
        ast.parse(after)
        new_arg = oracles.site_arg_texts(after)[0]
    except Exception as e:
        raise Violation("unparsable", f"F={F} {e}\n--- before\n{src}\n--- after\n{after}")

    def fail(kind, msg):
        raise Violation(kind, f"F={F} {msg}\n--- before\n{src}\n--- after\n{after}")

    if mode == "unused":
        # nothing was observed: only `update` may touch the text, and never a user-controlled part
        segs = []
        unmanaged_segments(c, segs)
        if "update" not in F and new_arg != old_text:
            fail("unused-rewritten", "a snapshot that was never compared changed without `update`")
        if c.get("star") is not None and oracles.masked(new_arg, None) != oracles.masked(old_text, None):
            fail("star-container-rewritten", "a container holding a star-expression was edited")
        for t in segs:
            if new_arg.count(t) != old_text.count(t):
                fail("unmanaged-removed", f"{t!r} of a never compared snapshot was altered")
        return {"nontrivial": count_u(c) >= 1 and "update" in F and new_arg != old_text,
                "classes": [c["kind"], "unused", "F=" + ",".join(F)] + (["star"] if c.get("star") is not None else []),
                "sample": {"F": F, "before": src, "after_arg": new_arg}}

    # (3) star containers keep their text
    if c.get("star") is not None:
        # (an inner snapshot( is a snapshot of its own and may be repaired inside its own parentheses)
        if oracles.masked(new_arg, None) != oracles.masked(old_text, None):
            fail("star-container-rewritten", "a container holding a star-expression was edited")
    # (1) never altered
    segs = []
    unmanaged_segments(c, segs)
    last = -1
    for t in segs:
        n = new_arg.count(t)
        if n > 1:
            fail("unmanaged-duplicated", f"{t!r} occurs {n} times")
        if n == 1:
            pos = new_arg.index(t)
            if pos < last:
                fail("unmanaged-reordered", f"{t!r} moved before an earlier survivor")
            last = pos
    # any Is(/f"/IsInt( etc. in the output must be one of the input segments (nothing invented or altered)
    import re

    for m in re.finditer(r"Is\(V\d+\)|f\"p\{V\d+\}\"|(?:IsInt|IsStr|AnyThing)\(t=\d+\)", new_arg):
        if m.group(0) not in segs:
            fail("unmanaged-altered", f"{m.group(0)!r} is not an input segment")
    for m in re.finditer(r"\bIs\(|\bf\"|\bf'|IsInt\(|IsStr\(|AnyThing\(", new_arg):
        tail = new_arg[m.start():m.start() + 40]
        if not any(tail.startswith(t) for t in segs):
            fail("unmanaged-altered", f"text at {tail!r} is no verbatim input segment")
    # (2) must survive
    need = []
    must_survive(c, need)
    for t in need:
        if t not in new_arg:
            fail("unmanaged-removed", f"{t!r} had to survive (surviving key / common prefix or suffix / replacement rule)")
    # (5) nested snapshot wrappers
    def snaps(cc, alive=True):
        k = 0
        for e in cc["elems"]:
            if e["type"] == "nested":
                k += snaps(e["sub"], alive and e["op"] != "deleted")
            elif e["type"] == "snap" and alive and e["op"] != "deleted":
                k += 1
        return k

    # wrappers of non-deleted inner snapshots under surviving keys must be present
    if c["kind"] in ("dict", "call") and c.get("star") is None:
        def dropped_default(e):
            if c["kind"] != "call":
                return False
            dflt = CALL_DEFAULTS.get((c["cls"], e["key"]), _NO)
            return dflt is not _NO and gv.build(e["new"]) == dflt

        want = sum(1 for e in c["elems"] if e["type"] == "snap" and e["op"] != "deleted" and not dropped_default(e))
        if new_arg.count("snapshot(") < want:
            fail("inner-snapshot-wrapper-lost", f"{new_arg.count('snapshot(')} inner snapshot( calls left, {want} expected")
    # (4) managed siblings
    if {"create", "fix"} <= set(F) and c.get("star") is None:
        g, results, exec_error = drivers.run_disabled({"test_a.py": after})
        if exec_error is not None:
            fail("disabled-exec-error", f"{type(exec_error).__name__}: {exec_error}")
        r = results.get("test_a.py::test_a")
        if all_correct(c) and seq_positions_stable(c):
            if r is not None:
                fail("not-repaired", f"all user-controlled parts are correct but the rewritten test fails: {type(r).__name__}: {r}")
        elif r is not None and not isinstance(r, AssertionError):
            fail("disabled-test-raised", f"{type(r).__name__}: {r}")
    nt = count_u(c) >= 1 and has_pending(c)
    return {"nontrivial": nt, "classes": [c["kind"], mode, "F=" + ",".join(F)] + (["star"] if c.get("star") is not None else [])
            + sorted({e["type"] for e in c["elems"]}),
            "sample": {"F": F, "before": src, "after_arg": new_arg}}


# ---------------------------------------------------------------------------- [key] on a star dict


@st.composite
def _star_getitem_case(draw, tier):
    common = draw(st.sampled_from(["{}", "{'z': 0}", "{'z': 0, 'y': 1}"]))
    entries = []
    for k in draw(st.lists(st.sampled_from(["a", "b", "c"]), min_size=1, max_size=3, unique=True)):
        entries.append([k, draw(st.sampled_from(["0+1", "[Is(X), 2]", "snapshot(5)", "'s'", "[1, 2]"]))])
    star_pos = draw(st.integers(0, len(entries)))
    access = [[draw(st.sampled_from(["a", "b", "c", "z", "new"])), draw(st.sampled_from(["1", "[1, 3]", "5", "'s'", "7"]))]
              for _ in range(draw(st.sampled_from([1, 2, 3])))]
    return {"common": common, "entries": entries, "star_pos": star_pos, "access": access, "F": draw(flag_sets())}


def check_star_getitem(case):
    """snapshot({**COMMON, ...})[key]: a dict display with a star-expression is left to the user as a whole"""
    import warnings

    parts = [f"{k!r}: {v}" for k, v in case["entries"]]
    parts.insert(case["star_pos"], "**COMMON")
    old_text = "{" + ", ".join(parts) + "}"
    lines = ["from inline_snapshot import snapshot, Is", "from vf_prelude import *", "", f"COMMON = {case['common']}", "X = 1",
             "", "", "def test_a():", f"    s = snapshot({old_text})"]
    for k, x in case["access"]:
        lines += ["    try:", f"        assert {x} == s[{k!r}]", "    except Exception:", "        pass"]
    src = "\n".join(lines) + "\n"
    F = case["F"]
    with warnings.catch_warnings():
        warnings.simplefilter("ignore")
        ses = drivers.run_inline({"test_a.py": src}, set(F))
    if not ses.ok():
        err = ses.exec_error or ses.collect_error or ses.apply_error
        raise Violation(f"session-exception:{type(err).__name__}", f"F={F} {type(err).__name__}: {err}\n{src}")
    after = ses.files_after["test_a.py"].decode("utf-8")
    try:
        new_arg = oracles.site_arg_texts(after)[0]
    except Exception as e:
        raise Violation("unparsable", f"F={F} {e}\n--- before\n{src}\n--- after\n{after}")
    if oracles.masked(new_arg, None) != oracles.masked(old_text, None):
        raise Violation("star-container-rewritten",
                        f"F={F} a dict display holding a star-expression was edited through [key]\n--- before\n{src}\n--- after\n{after}")
    return {"nontrivial": bool(F), "classes": ["star-getitem", "F=" + ",".join(F)], "sample": {"F": F, "before": src}}


# ---------------------------------------------------------------------------- defaults that are containers


@st.composite
def _default_nested_case(draw, tier):
    return {"field": draw(st.sampled_from(["t", "lst", "pt", "nt"])), "v": draw(st.sampled_from([0, 0, 0, 7])),
            "obs": draw(st.sampled_from([0, 5])), "n_new": draw(st.sampled_from([1, 2])), "F": draw(flag_sets()),
            "outer": draw(st.sampled_from(["call", "list", "dict"]))}


def check_default_nested(case):
    """Is(V) inside a container / constructor call that sits in a field whose default is such a container: when
    V equals the default's part the whole argument is *equal to the default* - Is(V) must survive all the same"""
    import warnings

    f, v, obs = case["field"], case["v"], case["obs"]
    cls = "Holder"
    if f == "nt":
        cls, f = "NHolder", "t"      # a namedtuple with defaults
    old = {"t": "(Is(V), 0)", "lst": "[Is(V)]", "pt": "Point(x=Is(V), y=0)"}[f]
    new = {"t": f"({obs}, 0)", "lst": f"[{obs}]", "pt": f"Point(x={obs}, y=0)"}[f]
    old_call = f"{cls}({f}={old}, n=0+1)"
    new_call = f"{cls}({f}={new}, n={case['n_new']})"
    wrap = {"call": "%s", "list": "[%s, 2]", "dict": "{'h': %s}"}[case["outer"]]
    src = ("from inline_snapshot import snapshot, Is\nfrom vf_prelude import *\n\n" + f"V = {v}\n\n\ndef test_a():\n"
           f"    assert {wrap % new_call} == snapshot({wrap % old_call})\n")
    F = case["F"]
    with warnings.catch_warnings():
        warnings.simplefilter("ignore")
        ses = drivers.run_inline({"test_a.py": src}, set(F))
    if not ses.ok():
        err = ses.exec_error or ses.collect_error or ses.apply_error
        raise Violation(f"session-exception:{type(err).__name__}", f"F={F} {type(err).__name__}: {err}\n{src}")
    after = ses.files_after["test_a.py"].decode("utf-8")
    try:
        new_arg = oracles.site_arg_texts(after)[0]
    except Exception as e:
        raise Violation("unparsable", f"F={F} {e}\n--- before\n{src}\n--- after\n{after}")
    dropped_default = (obs == 0 and ("update" in F or ("fix" in F and v != 0))
                       and f"{f}=" not in new_arg.replace(" ", ""))
    # (a keyword whose new value is the field default may be dropped as a whole - by update when the value did not
    # change, by fix when it did: "removed together with the element that holds it")
    if new_arg.count("Is(V)") != 1 and not dropped_default:
        raise Violation("unmanaged-removed",
                        f"F={F} 'Is(V)' under the surviving keyword {f} was rewritten\n--- before\n{src}\n--- after\n{after}")
    return {"nontrivial": v == 0 and obs != v and bool(set(F) & {"fix", "update"}),
            "classes": ["default-nested", f, case["outer"], "F=" + ",".join(F)], "sample": {"F": F, "before": src, "after_arg": new_arg}}


# few, long shards: hypothesis ramps the size of its examples up over the first hundreds of examples of a run
ARMS = [HypArm("mixed", _strategy, check, budget={"quick": 6000, "thorough": 200000},
               shards={"quick": 6, "thorough": 32}),
        HypArm("default_nested", _default_nested_case, check_default_nested, budget={"quick": 400, "thorough": 5000}),
        HypArm("star_getitem", _star_getitem_case, check_star_getitem, budget={"quick": 400, "thorough": 10000})]
