"""C17 - what is recorded is the value at comparison time."""

from __future__ import annotations

import ast
import copy

import vf_prelude
from hypothesis import strategies as st

from .. import drivers, gen_values as gv, oracles
from ..models.categories import MISSING, model
from ..runner import HypArm, Violation
from .c05 import value_matches

ID = "C17"
LEVEL = "exploration"
RULE = (
    "schedule: 1-3 variables holding mutable values (lists, dicts, sets, dataclass/attrs instances, nested) and "
    "1-3 empty snapshot sites (==, <=, >=, in, [key]); a generated schedule of 2-10 steps interleaves "
    "comparisons (variable vs site, inside loops for repeated evaluation) with mutations of the variables "
    "(append, clear, item assignment, attribute assignment, nested append, set add) after a comparison and "
    "between repeated comparisons. The harness executes the same schedule on its own objects and records a "
    "deep copy at every comparison (aliasing-free model), aggregates per site with the category model, and "
    "compares with the values found in the rewritten file after a create run; a second variant first creates, "
    "then re-runs a changed schedule with fix+trim. bad_copy: values whose deep copy is not equal to them "
    "(identity __eq__, lossy __deepcopy__, and values that deepcopy returns unchanged but that are not equal to "
    "themselves: float nan, Decimal NaN, a class of that kind), also nested in containers: the comparison must raise UsageError and "
    "the site must stay unwritten. nocopy: a value for which copy.deepcopy raises (it holds a lock) is compared and "
    "mutated afterwards: whatever the comparison does, the mutated state must never be written. non-trivial = a mutation happens after a comparison whose operand would "
    "otherwise be recorded (the mutated variable was compared before)."
)
ASSUMPTIONS = ["== sites only see equal values (steps that would contradict an earlier observation are dropped by the generator)"]

NS = dict(vars(vf_prelude))


def mutable_values(tier):
    ints = st.integers(0, 9).map(lambda i: ["int", i])
    lst = st.lists(ints, max_size=4).map(lambda xs: ["list", xs])
    nested = st.lists(lst, min_size=1, max_size=3).map(lambda xs: ["list", xs])
    dct = st.lists(st.tuples(st.integers(0, 3).map(lambda i: ["int", i]), st.one_of(ints, lst)).map(list),
                   max_size=3, unique_by=lambda kv: kv[0][1]).map(lambda kv: ["dict", kv])
    sets = st.lists(ints, max_size=3).map(lambda xs: ["set", xs])
    pt = st.tuples(st.one_of(ints, lst), lst).map(lambda t: ["call", "Point", [["x", t[0]], ["y", t[1]]]])
    ap = st.tuples(ints, lst).map(lambda t: ["call", "APoint", [["a", t[0]], ["b", t[1]]]])
    # tuples / namedtuples are only shallowly immutable
    tup = st.tuples(ints, lst).map(lambda t: ["tuple", [t[0], t[1]]])
    ntp = st.tuples(lst, ints).map(lambda t: ["call", "NT", [["a", t[0]], ["b", t[1]]]])
    # a pydantic model: libraries with a copy API of their own (model_copy is shallow by default)
    pm = st.tuples(ints, lst).map(lambda t: ["call", "PModel", [["n", t[0]], ["tags", t[1]]]])
    return st.one_of(lst, lst, nested, dct, sets, pt, ap, tup, ntp, pm)


MUTS = ["append", "clear", "setitem0", "nested_append", "dict_set", "dict_clear", "set_add", "attr_x",
        "attr_y_append", "attr_b_append", "tuple_inner_append", "nt_inner_append", "tuple_inner_append",
        "pm_tags_append"]


def apply_mut(obj, mut, n):
    """returns source line (with {v} placeholder) if applicable and applies it to obj, else None"""
    if mut == "append" and isinstance(obj, list):
        obj.append(n)
        return "{v}.append(%d)" % n
    if mut == "clear" and isinstance(obj, (list, dict, set)) and obj:
        obj.clear()
        return "{v}.clear()"
    if mut == "setitem0" and isinstance(obj, list) and obj:
        obj[0] = n
        return "{v}[0] = %d" % n
    if mut == "nested_append" and isinstance(obj, list) and obj and isinstance(obj[0], list):
        obj[0].append(n)
        return "{v}[0].append(%d)" % n
    if mut == "dict_set" and isinstance(obj, dict):
        obj[n % 4] = n
        return "{v}[%d] = %d" % (n % 4, n)
    if mut == "dict_clear" and isinstance(obj, dict) and obj:
        obj.clear()
        return "{v}.clear()"
    if mut == "set_add" and isinstance(obj, set):
        obj.add(n)
        return "{v}.add(%d)" % n
    if mut == "attr_x" and hasattr(obj, "x") and type(obj).__name__ == "Point":
        obj.x = n
        return "{v}.x = %d" % n
    if mut == "attr_y_append" and type(obj).__name__ == "Point" and isinstance(obj.y, list):
        obj.y.append(n)
        return "{v}.y.append(%d)" % n
    if mut == "tuple_inner_append" and type(obj) is tuple and len(obj) == 2 and isinstance(obj[1], list):
        obj[1].append(n)
        return "{v}[1].append(%d)" % n
    if mut == "nt_inner_append" and type(obj).__name__ == "NT" and isinstance(obj.a, list):
        obj.a.append(n)
        return "{v}.a.append(%d)" % n
    if mut == "pm_tags_append" and type(obj).__name__ == "PModel" and isinstance(obj.tags, list):
        obj.tags.append(n)
        return "{v}.tags.append(%d)" % n
    if mut == "attr_b_append" and type(obj).__name__ == "APoint" and isinstance(obj.b, list):
        obj.b.append(n)
        return "{v}.b.append(%d)" % n
    return None


@st.composite
def _case(draw, tier):
    nvars = draw(st.sampled_from([1, 2, 3]))
    vars_ = [draw(mutable_values(tier)) for _ in range(nvars)]
    nsites = draw(st.sampled_from([1, 2, 3]))
    ops = [draw(st.sampled_from(["eq", "in", "le", "ge", "getitem", "eq", "in"])) for _ in range(nsites)]
    steps = []
    for _ in range(draw(st.sampled_from([2, 4, 6, 8, 10]))):
        if draw(st.integers(0, 2)) == 0:
            steps.append(["mut", draw(st.integers(0, nvars - 1)), draw(st.sampled_from(MUTS)),
                          draw(st.integers(10, 99))])
        else:
            steps.append(["cmp", draw(st.integers(0, nsites - 1)), draw(st.integers(0, nvars - 1)),
                          draw(st.integers(0, 2))])
    return {"vars": vars_, "ops": ops, "steps": steps, "second": draw(st.booleans()),
            "steps2": [["mut", draw(st.integers(0, nvars - 1)), draw(st.sampled_from(MUTS)), draw(st.integers(10, 99))]
                       for _ in range(draw(st.integers(0, 3)))]}


def simulate(case, pre_steps=()):
    """returns (module body lines, events per site, nontrivial?)"""
    objs = [gv.build(d) for d in case["vars"]]
    lines = [f"    v{i} = {gv.render(d)}" for i, d in enumerate(case["vars"])]
    events = {i: [] for i in range(len(case["ops"]))}
    compared = set()
    nontrivial = False
    first_eq = {}
    kind_of = {}
    for st_ in list(pre_steps) + list(case["steps"]):
        if st_[0] == "mut":
            _, vi, mut, n = st_
            line = apply_mut(objs[vi], mut, n)
            if line is None:
                continue
            lines.append("    " + line.format(v=f"v{vi}"))
            if vi in compared:
                nontrivial = True
        else:
            _, si, vi, key = st_
            op = case["ops"][si]
            val = copy.deepcopy(objs[vi])
            if op in ("le", "ge"):
                # ordered family: lists of ints only
                if not (isinstance(val, list) and all(isinstance(x, int) for x in val)):
                    continue
                events[si].append(val)
            elif op == "eq":
                if si in first_eq and not (first_eq[si] == val):
                    continue
                first_eq.setdefault(si, val)
                events[si].append(val)
            elif op == "in":
                events[si].append(val)
            else:
                # child == : one value per key
                if (si, key) in first_eq and not (first_eq[(si, key)] == val):
                    continue
                first_eq.setdefault((si, key), val)
                events[si].append((key, "eq", val))
            compared.add(vi)
            S = f"S{si}"
            if op == "eq":
                e = f"v{vi} == {S}"
            elif op == "le":
                e = f"v{vi} <= {S}"
            elif op == "ge":
                e = f"v{vi} >= {S}"
            elif op == "in":
                e = f"v{vi} in {S}"
            else:
                e = f"v{vi} == {S}[{key}]"
            lines.append(f"    LOG.append({e})")
    return lines, events, nontrivial


def module_of(case, lines, prev_texts=None):
    head = ["from inline_snapshot import snapshot", "from vf_prelude import *", "", "LOG = []", ""]
    for i in range(len(case["ops"])):
        p = "" if not prev_texts or prev_texts[i] is None else prev_texts[i]
        head.append(f"S{i} = snapshot({p})")
    head += ["", "", "def test_a():"]
    return "\n".join(head + lines) + "\n"


def _session(src, flags, label):
    ses = drivers.run_inline({"test_a.py": src}, flags)
    if not ses.ok():
        err = ses.exec_error or ses.collect_error or ses.apply_error
        raise Violation(f"session-exception:{type(err).__name__}", f"{label} {type(err).__name__}: {err}\n{src}")
    exc = ses.test_results.get("test_a.py::test_a")
    if exc is not None:
        raise Violation(f"test-raised:{type(exc).__name__}", f"{label} {type(exc).__name__}: {exc}\n{src}")
    text = ses.files_after["test_a.py"].decode()
    g, _r, err = drivers.run_disabled({"test_a.py": drivers.stub_source(text)}, test_prefix="never")
    if err is not None:
        raise Violation("unreadable", f"{label} {err}\n{text}")
    vals = oracles.eval_site_args(text, g["test_a.py"])
    return text, vals


def check_schedule(case):
    lines, events, nontrivial = simulate(case)
    src = module_of(case, lines)
    text, vals = _session(src, {"create"}, "create")
    prevs = {}
    for i, op in enumerate(case["ops"]):
        cats, want = model(op, MISSING, events[i], {"create"})
        kind, got = vals[i]
        got = MISSING if kind == "empty" else got
        if kind == "error":
            raise Violation("site-unreadable", f"site {i}: {got}\n{text}")
        if not value_matches(op, got, want, events[i]):
            raise Violation(f"recorded-value:{op}",
                            f"site S{i} ({op}) holds {got!r}; values at comparison time give {want!r}\n--- before\n{src}\n--- after\n{text}")
        prevs[i] = got
    if case["second"]:
        # second session: more mutations up front, then the same schedule, fix+trim on tool-written text
        lines2, events2, nt2 = simulate(case, pre_steps=case["steps2"])
        texts = oracles.site_arg_texts(text)
        prev_texts = [texts[i] if prevs[i] is not MISSING else None for i in range(len(case["ops"]))]
        src2 = module_of(case, lines2, prev_texts)
        F = {"create", "fix", "trim"}
        text2, vals2 = _session(src2, F, "fix+trim")
        for i, op in enumerate(case["ops"]):
            cats, want = model(op, prevs[i], events2[i], F)
            kind, got = vals2[i]
            got = MISSING if kind == "empty" else got
            if not value_matches(op, got, want, events2[i]):
                raise Violation(f"recorded-value-2:{op}",
                                f"site S{i} ({op}) holds {got!r}; model {want!r}\n--- before\n{src2}\n--- after\n{text2}")
        nontrivial = nontrivial or nt2
    return {"nontrivial": nontrivial, "classes": list(case["ops"]) + (["second"] if case["second"] else []),
            "sample": {"before": src, "after": text}}


# ----------------------------------------------------------------------------- bad copy


@st.composite
def _bad_case(draw, tier):
    cls = draw(st.sampled_from(["IdentityEq", "LossyCopy", "SelfCopy", "nan", "decnan"]))
    wrap = draw(st.sampled_from(["{}", "[{}]", "[1, {}]", "{{'k': {}}}", "({}, 2)", "Point(x={}, y=1)", "[[{}]]"]))
    if cls in ("SelfCopy", "nan", "decnan"):
        # values that copy.deepcopy returns unchanged but that are not equal to themselves; inside a builtin
        # container python's identity shortcut makes the container equal to its copy, so only the bare value
        wrap = "{}"
    op = draw(st.sampled_from(["eq", "in", "getitem", "eq"]))
    return {"cls": cls, "wrap": wrap, "op": op, "n": draw(st.integers(0, 5)), "after_ok": draw(st.booleans()),
            # the snapshot already holds a value (which must stay as it is)
            "prev": draw(st.sampled_from([False, False, True]))}


def check_bad(case):
    inner = {"nan": "float('nan')", "decnan": "Decimal('NaN')"}.get(case["cls"], f"{case['cls']}({case['n']})")
    expr = case["wrap"].format(inner)
    op = case["op"]
    if case.get("prev"):
        cmp = {"eq": "v == snapshot(7)", "in": "v in snapshot([7, 8])", "getitem": "v == snapshot({'k': 7})['k']"}[op]
    else:
        cmp = {"eq": "v == snapshot()", "in": "v in snapshot()", "getitem": "v == snapshot()['k']"}[op]
    src = ("from inline_snapshot import snapshot\nfrom vf_prelude import *\n\nLOG = []\n\n\ndef test_a():\n"
           f"    v = {expr}\n    try:\n        LOG.append({cmp})\n    except Exception as e:\n"
           "        LOG.append(type(e).__name__)\n")
    if case["after_ok"]:
        src += "    LOG.append(5 == snapshot())\n"
    ses = drivers.run_inline({"test_a.py": src}, {"create"})
    if not ses.ok():
        err = ses.exec_error or ses.collect_error or ses.apply_error
        raise Violation(f"session-exception:{type(err).__name__}", f"{type(err).__name__}: {err}\n{src}")
    log = ses.globals["test_a.py"]["LOG"]
    if not log or log[0] != "UsageError":
        raise Violation("not-rejected", f"value whose deep copy is not equal was not rejected: LOG={log}\n{src}")
    text = ses.files_after["test_a.py"].decode()
    r = oracles.eval_site_args(text, dict(NS))
    # a sub-snapshot site may be left as the empty mapping `snapshot({})` (an accepted state: the key is
    # created by the next run); nothing else may have been written
    ok_empty = r[0][0] == "empty" or (op == "getitem" and r[0][0] == "value" and r[0][1] == {})
    if case.get("prev"):
        ok_empty = r[0][0] == "value" and r[0][1] == {"eq": 7, "in": [7, 8], "getitem": {"k": 7}}[op]
    if not ok_empty:
        raise Violation("recorded-anyway", f"site was written although the value was rejected\n{text}")
    if case["after_ok"] and (r[1][0] != "value" or r[1][1] != 5):
        raise Violation("later-site-lost", f"{r}\n{text}")
    return {"nontrivial": True, "classes": [case["cls"], op], "sample": {"before": src, "after": text}}


# ----------------------------------------------------------------------------- values that cannot be copied


@st.composite
def _nocopy_case(draw, tier):
    return {"op": draw(st.sampled_from(["eq", "in", "le", "getitem"])), "n": draw(st.integers(0, 5)),
            "prev": draw(st.sampled_from([False, True])), "flags": draw(st.sampled_from([["create"], ["create", "fix"]]))}


def check_nocopy(case):
    """a value for which copy.deepcopy raises: either the comparison raises and nothing is recorded, or what
    is recorded is the value at comparison time - never the value after a later mutation"""
    op, n = case["op"], case["n"]
    prev = {"eq": "Locky([0])", "in": "[Locky([0])]", "le": "", "getitem": "{'k': Locky([0])}"}[op] if case["prev"] else ""
    cmp = {"eq": "v == snapshot(%s)", "in": "v in snapshot(%s)", "le": "v.items <= snapshot(%s)",
           "getitem": "v == snapshot(%s)['k']"}[op] % prev
    src = ("from inline_snapshot import snapshot\nfrom vf_prelude import *\n\nLOG = []\n\n\ndef test_a():\n"
           f"    v = Locky([1, {n}])\n    try:\n        LOG.append({cmp})\n    except Exception as e:\n"
           "        LOG.append(type(e).__name__)\n    v.items.append(99)\n")
    ses = drivers.run_inline({"test_a.py": src}, set(case["flags"]))
    if not ses.ok():
        err = ses.exec_error or ses.collect_error or ses.apply_error
        raise Violation(f"session-exception:{type(err).__name__}", f"{type(err).__name__}: {err}\n{src}")
    log = ses.globals["test_a.py"]["LOG"]
    text = ses.files_after["test_a.py"].decode()
    if "99" in oracles.site_arg_texts(text)[0]:
        raise Violation("mutation-after-comparison-recorded",
                        f"the value was mutated after the comparison and the mutated state was written (LOG={log})\n{text}")
    return {"nontrivial": True, "classes": ["nocopy", op, str(log[0])], "sample": {"before": src, "after": text}}


ARMS = [
    HypArm("nocopy", _nocopy_case, check_nocopy, budget={"quick": 64, "thorough": 600}),
    HypArm("schedule", lambda tier: _case(tier), check_schedule, budget={"quick": 2400, "thorough": 100000},
           shards={"quick": 8, "thorough": 48}),
    HypArm("bad_copy", lambda tier: _bad_case(tier), check_bad, budget={"quick": 300, "thorough": 3000}),
]
