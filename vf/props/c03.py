"""C03 - rewriting touches only the arguments of snapshot() calls."""

from __future__ import annotations

import ast
import re

from hypothesis import strategies as st

from .. import drivers, gen_programs as gp, gen_values as gv, oracles
from ..models.categories import model
from ..runner import HypArm, Violation
from .c05 import flag_sets, has_positional_call
from .c12 import PYPROJECTS, no_black

ID = "C03"
LEVEL = "exploration"
RULE = (
    "programs of 1-4 sites with noisy previous texts (multi-line arguments with comments included) are "
    "decorated *outside* the arguments: multi-byte text to the left of the call on the same line, two sites "
    "joined by `;` on one line, nested calls ident(ident(snapshot(..))), decorators, comments and string "
    "literals containing `snapshot(`, tab indentation, LF or CRLF line ends, made black-clean by the harness or "
    "left unclean, with black / black missing / format-command (cat, black); approved set F drawn from all 16 "
    "subsets. Oracle: the result parses; with Ch = sites whose model-predicted pending categories intersect F "
    "(all sites when update is approved): when no whole-file formatting applies (file not a fixed point of the "
    "harness-invoked black and no format-command) the bytes with the argument spans of Ch masked are identical "
    "before and after, except for the exact import lines `from inline_snapshot import external|HasRepr` when "
    "the new code uses that name; otherwise the syntax trees with those arguments masked are identical. Sites "
    "outside Ch lie inside the compared region. non-trivial = non-empty Ch, >= 2 sites, and a site on a line "
    "with non-ASCII text or another site to its left, or a multi-line argument."
)
ASSUMPTIONS = [
    "python's ast locates the call parentheses; the category model of C05 decides which sites may change",
    "previous texts with positional constructor arguments excluded (F14 makes `fix` pending on equal values)",
]

FORMATS = ["black", "black", "black", "black-ll20", "noblack", "fmt-cat", "fmt-black"]


@st.composite
def _case(draw, tier):
    prog = draw(gp.program_with_prev(tier, max_sites=4, min_sites=1, styles=("record", "assert"),
                                     places=("assert", "assert", "var", "helper", "lambda"), max_leaves=6))
    deco = {
        "pre": [draw(st.sampled_from(["", "", 'u = "äöü🐍"; ', "t = 'é'; k = 1; "])) for _ in prog["sites"]],
        "wrap": [draw(st.integers(0, 2)) if draw(st.booleans()) else 0 for _ in prog["sites"]],
        "join": draw(st.booleans()),
        "tabs": draw(st.sampled_from([False, False, False, True])),
        "crlf": draw(st.sampled_from([False] * 8 + [True] * 3 + ["cr", "cr", "mixed"])),
        "clean": draw(st.sampled_from([False, False, False, True])),
        "decorator": draw(st.booleans()),
        "strings": draw(st.booleans()),
    }
    return {"prog": prog, "deco": deco, "F": draw(flag_sets()), "fmt": draw(st.sampled_from(FORMATS))}


def signature(case):
    from .c05 import signature as c05_signature

    sigs = set(c05_signature(case))
    if case["deco"].get("crlf") == "mixed":
        sigs.add("mixed-line-endings")
    return sigs


def decorate(case):
    prog = {"sites": [dict(s) for s in case["prog"]["sites"]], "tests": case["prog"]["tests"]}
    deco = case["deco"]
    for i, s in enumerate(prog["sites"]):
        s["pre"] = deco["pre"][i]
    src, order = gp.render_program(prog)
    lines = src.split("\n")
    # nested calls around the snapshot call
    if any(deco["wrap"]):
        out = []
        k = 0
        for ln in lines:
            out.append(ln)
        lines = out
    text = "\n".join(lines)
    if any(deco["wrap"]):
        # wrap the k-th outermost call (source order) in ident(...) calls
        spans = oracles.site_spans(text)
        for pos in range(len(spans) - 1, -1, -1):
            n = deco["wrap"][order[pos]]
            if not n:
                continue
            a, b, call = spans[pos]
            start = a - len("snapshot(")
            text = text[:start] + "ident(" * n + text[start:b + 1] + ")" * n + text[b + 1:]
        text = text.replace("LOG = []\n", "LOG = []\n\n\ndef ident(x):\n    return x\n", 1)
    lines = text.split("\n")
    if deco["join"]:
        out = []
        i = 0
        while i < len(lines):
            a = lines[i]
            b = lines[i + 1] if i + 1 < len(lines) else None
            simple = lambda l: (l is not None and l.startswith("    ") and not l.startswith("     ")
                                and l.lstrip().startswith(("assert ", "LOG.append(", "h_", "r_", "u = ", "t = "))
                                and "snapshot(" in l and l.count("(") == l.count(")")
                                and "#" not in l)
            if simple(a) and simple(b):
                out.append(a + "; " + b.lstrip())
                i += 2
            else:
                out.append(a)
                i += 1
        lines = out
    if deco["decorator"]:
        lines = [("@deco\n" + l) if l.startswith("def test_") else l for l in lines]
        idx = lines.index("LOG = []")
        lines[idx] = "LOG = []\n\n\ndef deco(f):\n    return f\n"
    if deco["strings"]:
        idx = lines.index("LOG = []") if "LOG = []" in lines else 3
        lines.insert(idx, 'NOTE = "snapshot(1) and snapshot() # not a call"  # snapshot(5) in a comment: ünïcödé')
    text = "\n".join(lines)
    if deco["clean"]:
        import black

        try:
            text = black.format_str(text, mode=black.Mode(line_length=_line_length(case["fmt"])))
        except Exception:
            pass
    elif deco["tabs"]:
        text = "\n".join(_tabify(l) for l in text.split("\n"))
    # the order of sites may have changed by joining lines? joining keeps left-to-right order
    if deco["crlf"] == "cr":
        # classic mac line endings: python, pytest and the tool accept them
        text = text.replace("\n", "\r")
    elif deco["crlf"] == "mixed":
        # both kinds of line endings in one file (a dos header with unix lines added later)
        ls = text.split("\n")
        text = "".join(l + ("\r\n" if i < 4 else "\n") for i, l in enumerate(ls[:-1])) + ls[-1]
    elif deco["crlf"]:
        text = text.replace("\n", "\r\n")
    return text, order


def _tabify(line):
    m = re.match(r"^( +)", line)
    if not m or "\n" in line:
        return line
    n = len(m.group(1))
    return "\t" * (n // 4) + " " * (n % 4) + line[n:] if n % 4 == 0 else line


def _line_length(fmt):
    return 20 if fmt == "black-ll20" else 88


def harness_is_clean(text, fmt):
    import black

    norm = text.replace("\r\n", "\n").replace("\r", "\n")
    try:
        return black.format_str(norm, mode=black.Mode(line_length=_line_length(fmt))) == norm
    except Exception:
        return False


def check(case):
    import contextlib

    F, fmt = case["F"], case["fmt"]
    try:
        text, order = decorate(case)
        ast.parse(text)
        spans = oracles.site_spans(text)
    except Exception as e:
        raise RuntimeError(f"harness: decorated module invalid: {e}")
    if len(spans) != len(order):
        raise RuntimeError("harness: site count after decoration")
    prog = case["prog"]
    ev = gp.exec_events(prog)
    # which sites may change, from the model
    may = set()
    pending_any = False
    for pos, i in enumerate(order):
        s = prog["sites"][i]
        cats, _new = model(s["op"], gp.prev_value(s), gp.build_events(s["op"], ev[i]), F)
        if cats & set(F) or "update" in F:
            may.add(pos)
        if cats & set(F):
            pending_any = True
    if set(F) == {"trim"}:
        # with trim alone a failing `assert` aborts its test: later observations are lost and the model
        # (which assumes that every scripted comparison is observed) does not apply to that test
        aborting = {ti for ti, t in enumerate(prog["tests"])
                    if any(prog["sites"][i].get("style", "assert") == "assert" for i in t)}
        for pos, i in enumerate(order):
            if any(i in prog["tests"][ti] for ti in aborting):
                may.add(pos)
    cm = no_black() if fmt == "noblack" else contextlib.nullcontext()
    before = text.encode("utf-8")
    with cm:
        ses = drivers.run_inline({"test_a.py": before}, set(F), pyproject=PYPROJECTS[fmt])
    if not ses.ok():
        err = ses.exec_error or ses.collect_error or ses.apply_error
        tb = getattr(ses, "apply_tb", "") or getattr(ses, "collect_tb", "")
        raise Violation(f"session-exception:{type(err).__name__}", f"F={F} fmt={fmt} {type(err).__name__}: {err}\n{tb[-600:]}\n{text}")
    after_b = ses.files_after["test_a.py"]
    try:
        after = after_b.decode("utf-8")
        ast.parse(after)
    except Exception as e:
        raise Violation("unparsable", f"F={F} fmt={fmt} {type(e).__name__}: {e}\n--- before\n{text}\n--- after\n{after_b!r}")
    whole = fmt.startswith("fmt-") or (fmt != "noblack" and harness_is_clean(text, fmt)) or fmt == "noblack"
    # black missing: format_code returns the text unchanged, which makes the file a "fixed point" too; the
    # implementation then passes the file through format_code again, which is the identity -> bytes must match
    after_cmp = oracles.strip_added_imports(text, after)
    if fmt.startswith("fmt-") or (fmt != "noblack" and harness_is_clean(text, fmt)):
        try:
            a = oracles.ast_masked(text, may)
            b = oracles.ast_masked(after_cmp, may)
        except Exception as e:
            raise Violation("unparsable", f"{e}\n{after}")
        if a != b:
            raise Violation("tree-changed-outside-arguments",
                            f"F={F} fmt={fmt} (whole-file formatting applies)\n--- before\n{text}\n--- after\n{after}")
        level = "ast"
    else:
        try:
            a = oracles.masked(text, may)
            b = oracles.masked(after_cmp, may)
        except Exception as e:
            raise Violation("unparsable", f"{e}\n{after}")
        if a != b:
            import difflib

            diff = "\n".join(difflib.unified_diff(a.splitlines(keepends=True), b.splitlines(keepends=True), lineterm="", n=1))
            raise Violation("bytes-changed-outside-arguments",
                            f"F={F} fmt={fmt} changeable sites (source order) {sorted(may)}\n{diff[:1500]!r}\n--- before\n{text}\n--- after\n{after}")
        level = "bytes"
    multi = any("\n" in (s.get("prev") or "") for s in prog["sites"])
    left = any(case["deco"]["pre"]) or case["deco"]["join"]
    nt = pending_any and len(order) >= 2 and (left or multi)
    classes = [fmt, level, "F=" + ",".join(F)] + [k for k in ("join", "tabs", "crlf", "clean", "decorator") if case["deco"][k]]
    return {"nontrivial": nt, "classes": classes, "sample": {"F": F, "fmt": fmt, "before": text, "after": after}}


# ------------------------------------------------------------------- several files, real sessions


@st.composite
def _multi_case(draw, tier):
    n = draw(st.integers(2, 3))
    files = []
    for _ in range(n):
        files.append({
            "kind": draw(st.sampled_from(["plain", "plain", "external", "hasrepr", "both", "unchanged", "mixed"])),
            "v": draw(st.integers(0, 99)),
            "has_import": draw(st.sampled_from([False, False, True])),
            "nested_import": draw(st.sampled_from([False, False, True])),
            "header_noise": draw(st.booleans()),
            # layout of the last top-level import statement (the new import is added below it)
            "imp": draw(st.sampled_from(["plain", "plain", "multiline", "semicolon", "comment", "backslash",
                                         "tight", "try_after"])),
        })
    symlink = draw(st.sampled_from([False, False, True]))
    if symlink and draw(st.booleans()):
        files[0]["kind"] = "mixed"
    return {"files": files, "F": draw(st.sampled_from([["create"], ["create", "fix"], ["create", "fix", "trim", "update"]])),
            # the first file lives in a directory that pytest reaches through a symlink
            "symlink": symlink}


def render_multi(case):
    out = {}
    for i, f in enumerate(case["files"]):
        lines = []
        if f["header_noise"]:
            lines += ['"""module docstring with snapshot( inside"""', "from __future__ import annotations",
                      "import os  # ünïcödé", ""]
        lines += ["from inline_snapshot import snapshot, outsource"]
        if f["has_import"]:
            lines += ["from inline_snapshot import external", "from inline_snapshot import HasRepr"]
        imp = f.get("imp", "plain")
        if imp == "multiline":
            lines += ["from vf_prelude import *", "from vf_prelude import (", "    Opaque,", "    Color,  # ünï", ")", "", ""]
        elif imp == "semicolon":
            lines += ["from vf_prelude import *; import sys", "", ""]
        elif imp == "comment":
            lines += ["from vf_prelude import *  # the last import, ünï", "", ""]
        elif imp == "backslash":
            lines += ["from vf_prelude import *", "from vf_prelude import Opaque, \\", "    Color", "", ""]
        elif imp == "tight":
            lines += ["from vf_prelude import *"]
        elif imp == "try_after":
            lines += ["from vf_prelude import *", "try:", "    import json as _j", "except ImportError:", "    _j = None", "", ""]
        else:
            lines += ["from vf_prelude import *", "", ""]
        if f["nested_import"]:
            lines += ["def helper_with_local_import():", "    from inline_snapshot import HasRepr, external", "    return HasRepr, external", "", ""]
        lines.append("def test_a():")
        k, v = f["kind"], f["v"]
        if k == "plain":
            lines.append(f"    assert {v} + 1 == snapshot()")
        elif k == "unchanged":
            lines.append(f"    assert {v} == snapshot({v})")
        if k == "mixed":
            # a created multi-line value (changes the line count) in front of a fixed == value
            if "fix" in case["F"] and v % 2:
                # a fixed value that becomes a multi-line literal in front of a created one
                lines.append(f"    assert 'line {v}\\nsecond\\nthird\\n' == snapshot('')")
                lines.append(f"    assert [{v}, 2] == snapshot()")
            else:
                lines.append(f"    assert 'line {v}\\nsecond\\nthird\\n' == snapshot()")
                lines.append(f"    assert [{v}, 2] == snapshot([{v}, {3 if 'fix' in case['F'] else 2}])")
        if k in ("external", "both"):
            lines.append(f"    assert outsource('data {i} {v}') == snapshot()")
        if k in ("hasrepr", "both"):
            lines.append(f"    assert [Opaque({v % 5})] == snapshot()")
        out[f"test_m{i}.py"] = "\n".join(lines) + "\n"
    return out


def check_multi(case):
    import shutil

    files = render_multi(case)
    d = drivers.make_project(files)
    try:
        targets = []
        if case.get("symlink"):
            (d / "shared").mkdir()
            (d / "test_m0.py").rename(d / "shared" / "test_m0.py")
            (d / "link").symlink_to("shared", target_is_directory=True)
            targets = ["link/test_m0.py"] + sorted(n for n in files if n != "test_m0.py")
        r = drivers.run_pytest(d, ["--inline-snapshot=" + ",".join(case["F"])] + targets)
        if "INTERNALERROR" in r.stdout or r.returncode not in (0, 1) or "Traceback (most recent call last)" in r.stderr:
            raise Violation("session-broken", f"rc={r.returncode}\n{r.stdout[-2000:]}\n{r.stderr[-1000:]}")
        after = {k: v.decode("utf-8") for k, v in r.files_after.items() if k in files}
        if case.get("symlink"):
            after["test_m0.py"] = (d / "shared" / "test_m0.py").read_text("utf-8")
        # read back: the rewritten project passes with inline-snapshot disabled
        r2 = drivers.run_pytest(d, ["--inline-snapshot=disable"] + targets)
    finally:
        shutil.rmtree(d, ignore_errors=True)
    for name, before in files.items():
        now = after[name]
        try:
            ast.parse(now)
            a = oracles.masked(before, None)
            b = oracles.masked(oracles.strip_added_imports(before, now), None)
        except Exception as e:
            raise Violation("unparsable", f"{name}: {e}\n{now}")
        if ast.get_docstring(ast.parse(before)) != ast.get_docstring(ast.parse(now)):
            raise Violation("module-docstring-lost", f"F={case['F']} {name}\n--- before\n{before}\n--- after\n{now}")
        if a != b:
            raise Violation("bytes-changed-outside-arguments",
                            f"F={case['F']} {name} changed outside its snapshot arguments (only the import of a name the new "
                            f"code needs may be added)\n--- before\n{before}\n--- after\n{now}")
    if r2.returncode != 0:
        raise Violation("rewritten-project-fails-when-disabled",
                        f"F={case['F']}\n" + "\n".join(f"# {k}\n{v}" for k, v in after.items()) + r2.stdout[-2000:])
    kinds = [f["kind"] for f in case["files"]]
    nt = len(set(kinds) & {"external", "hasrepr", "both"}) >= 1 and len(set(kinds) & {"plain", "unchanged"}) >= 1
    return {"nontrivial": nt, "classes": sorted(set(kinds)) + (["nested-import"] if any(f["nested_import"] for f in case["files"]) else [])
            + sorted({"imp=" + f.get("imp", "plain") for f in case["files"] if f["kind"] in ("external", "hasrepr", "both")}),
            "sample": {"F": case["F"], "files": files, "after": after}}


ARMS = [HypArm("multi_file_sessions", lambda tier: _multi_case(tier), check_multi,
               budget={"quick": 48, "thorough": 1500}, shrink=False),
        HypArm("layout", lambda tier: _case(tier), check, signature=signature,
               budget={"quick": 1500, "thorough": 100000})]

