"""C02 - approving create and fix repairs every reached snapshot in a single run."""

from __future__ import annotations

import ast

from hypothesis import strategies as st

from .. import drivers, gen_programs as gp, gen_values as gv, oracles
from ..runner import HypArm, Violation
from .c01 import check_sites, _values_in

ID = "C02"
LEVEL = "exploration"
RULE = (
    "programs of 1-4 sites, each with a previous argument text that is a noisy hand-style rendering "
    "(odd spacing, line breaks, comments, both quote kinds, implicit concatenation, arithmetic and hex "
    "spellings, dict(a=1), positional/keyword constructor arguments, defaults shown) of a value derived "
    "from the newly observed one by a generated edit script (insert/delete/replace/reorder, container "
    "type change, wrap/unwrap, dict key add/remove/move, constructor field edits, unrelated value) or "
    "missing; all five operations, six placements, loops, several sites per test (wrong ones before "
    "right ones); one in-process run with create+fix approved; then the rewritten module is re-executed "
    "with inline-snapshot inactive: every test must pass and every site argument must satisfy the "
    "observed comparisons on the plain value. non-trivial = a previous value is present, differs from "
    "the observed one, and one of them is a container or constructor call. Arm inner: an outer == snapshot whose "
    "elements are managed values or inner snapshots (empty, wrong, noisy, right; same or changed length) followed "
    "by another empty snapshot; a guarded comparison that raises may precede everything (raiser_first)."
)
ASSUMPTIONS = [
    "no user-controlled parts (Is, f-strings, star-expressions) in the previous text (C10 covers them)",
    "one == site always observes equal values; values satisfy v == v and deepcopy(v) == v",
]

CONTAINER = {"list", "tuple", "dict", "set", "frozenset", "call", "vec", "ddict"}


def signature(case):
    from ..gen_render import has_redundant_parens

    sigs = set()
    for s in case["prog"]["sites"]:
        if s.get("prev") and has_redundant_parens(s["prev"]):
            sigs.add("paren-element")
    return sigs


RAISER_BLOCK = ("    try:\n        assert [RaisingEq(), 2] == snapshot([1, 3])\n"
                "    except RuntimeError:\n        pass\n")


def _strategy(tier):
    return st.builds(lambda p, r: {"prog": p, "raiser_first": r}, gp.program_with_prev(tier, max_sites=4),
                     st.sampled_from([False, False, False, True]))


def _nontrivial(prog):
    for s in prog["sites"]:
        pd = s.get("prev_desc")
        if pd is None:
            continue
        if s["op"] == "eq" and not s["events"]:
            continue
        if s["op"] == "eq":
            new = s["events"][0]
            if gv.build(pd) != gv.build(new) and (pd[0] in CONTAINER or new[0] in CONTAINER):
                return True
        elif s["op"] in ("in", "getitem"):
            return True
    return False


def check(case):
    prog = case["prog"]
    src, order = gp.render_program(prog)
    if any(x[0] == "opaque" for s in prog["sites"] for d in ([s["prev_desc"]] if s.get("prev_desc") else []) + list(_values_in({"sites": [s]})) for x in gv.walk(d)):
        src = src.replace("from inline_snapshot import snapshot\n",
                          "from inline_snapshot import snapshot, HasRepr\n", 1)
    if case.get("raiser_first"):
        # a guarded comparison that raises (inside the alignment of a list) before everything else: the
        # snapshots behind it must still be recorded and repaired
        src = src.replace("def test_0():\n", "def test_0():\n" + RAISER_BLOCK, 1)
    ses = drivers.run_inline({"test_a.py": src}, {"create", "fix"})
    if not ses.ok():
        err = ses.exec_error or ses.collect_error or ses.apply_error
        tb = getattr(ses, "apply_tb", "") or getattr(ses, "collect_tb", "")
        raise Violation("session-exception:" + type(err).__name__, f"{type(err).__name__}: {err}\n{tb[-800:]}\n{src}")
    for name, exc in ses.test_results.items():
        if exc is not None:
            raise Violation("fix-run-test-failed:" + type(exc).__name__,
                            f"{name}: {type(exc).__name__}: {exc}\n{src}")
    new = ses.files_after["test_a.py"]
    try:
        text = new.decode("utf-8")
        ast.parse(text)
    except Exception as e:
        raise Violation("unparsable", f"{type(e).__name__}: {e}\n--- before\n{src}\n--- after\n{new!r}")
    g, results, exec_error = drivers.run_disabled({"test_a.py": new})
    if exec_error is not None:
        raise Violation("disabled-exec-error", f"{type(exec_error).__name__}: {exec_error}\n--- before\n{src}\n--- after\n{text}")
    for name, exc in results.items():
        if exc is not None:
            raise Violation("disabled-test-failed",
                            f"{name}: {type(exc).__name__}: {exc}\n--- before\n{src}\n--- after\n{text}")
    if case.get("raiser_first"):
        if RAISER_BLOCK not in text:
            raise Violation("raising-site-rewritten", f"--- before\n{src}\n--- after\n{text}")
        text = text.replace(RAISER_BLOCK, "", 1)
    try:
        check_sites(prog, order, text, g["test_a.py"], "inline")
    except Violation as v:
        v.message += f"\n--- before\n{src}"
        raise
    classes = [s["op"] + ("+prev" if s.get("prev_desc") is not None else "") for s in prog["sites"]]
    return {"nontrivial": _nontrivial(prog), "classes": classes,
            "sample": {"before": src, "after": text}}


def _strategy_inner(tier):
    from .c09 import _strategy_inner as s

    return s(tier)


def check_inner(case):
    """an outer == snapshot whose elements are managed values or inner snapshots (empty, wrong, noisy, right):
    one create+fix run must leave a test that passes with inline-snapshot inactive"""
    import warnings

    olds, news = [], []
    for i, k in enumerate(case["elems"]):
        v = 10 + i
        news.append(str(v))
        olds.append({"same": str(v), "fix": str(v + 100), "update": f"{v - 1}+1", "inner-create": "snapshot()",
                     "inner-fix": f"snapshot({v + 100})", "inner-update": f"snapshot({v - 1}+1)",
                     "inner-same": f"snapshot({v})"}[k])
    if case["longer"]:
        news.append("99")
    shape = case["shape"]
    if shape == "call":
        olds, news = olds[:2], news[:2]

    def wrap(xs):
        if shape == "list":
            return "[" + ", ".join(xs) + "]"
        if shape == "tuple":
            return "(" + ", ".join(xs) + ",)"
        if shape == "dict":
            return "{" + ", ".join(f"'k{i}': {x}" for i, x in enumerate(xs)) + "}"
        return "Point(" + ", ".join(f"{n}={x}" for n, x in zip("xy", xs)) + ")"

    src = ("from inline_snapshot import snapshot\nfrom vf_prelude import *\n\n\ndef test_a():\n"
           f"    assert {wrap(news)} == snapshot({wrap(olds)})\n    assert 5 == snapshot()\n")
    with warnings.catch_warnings():
        warnings.simplefilter("ignore")
        ses = drivers.run_inline({"test_a.py": src}, {"create", "fix"})
    if not ses.ok():
        err = ses.exec_error or ses.collect_error or ses.apply_error
        raise Violation("session-exception:" + type(err).__name__, f"{type(err).__name__}: {err}\n{src}")
    exc = ses.test_results.get("test_a.py::test_a")
    if exc is not None:
        raise Violation("fix-run-test-failed:" + type(exc).__name__, f"{type(exc).__name__}: {exc}\n{src}")
    text = ses.files_after["test_a.py"].decode("utf-8")
    g, results, exec_error = drivers.run_disabled({"test_a.py": text})
    bad = exec_error or results.get("test_a.py::test_a")
    if bad is not None:
        raise Violation("disabled-test-failed:inner",
                        f"{type(bad).__name__}: {bad}\n--- before\n{src}\n--- after\n{text}")
    inner = any(k.startswith("inner-") and k != "inner-same" for k in case["elems"])
    return {"nontrivial": inner, "classes": ["inner", shape], "sample": {"before": src, "after": text}}


@st.composite
def _strategy_session(draw, tier):
    """a real session over one file whose new code needs the `external` and / or `HasRepr` import"""
    kinds = draw(st.lists(st.sampled_from(["ext-create", "ext-fix", "opaque-create", "opaque-fix", "plain-fix",
                                           "ext-keep", "opaque-create", "ext-create"]), min_size=2, max_size=4))
    return {"kinds": kinds, "imported": draw(st.sampled_from([[], [], ["external"], ["HasRepr"]]))}


def check_session(case):
    """create,fix in a real pytest session (the imports are added at the end of the session), then the same
    project with inline-snapshot disabled and without any flag: every test passes"""
    import shutil

    lines = ["from inline_snapshot import snapshot, outsource"] + [f"from inline_snapshot import {n}" for n in case["imported"]]
    lines += ["from vf_prelude import *", "", ""]
    for i, k in enumerate(case["kinds"]):
        what = k.split("-")[0]
        obs = {"ext": f"outsource('data {i}')", "opaque": f"[Opaque({i})]", "plain": f"[{i}]"}[what]
        old = "" if k.endswith("create") or k.endswith("keep") else "[99]"
        lines += [f"def test_{i}():", f"    assert {obs} == snapshot({old})", "", ""]
    src = "\n".join(lines).rstrip("\n") + "\n"
    d = drivers.make_project({"test_a.py": src})
    try:
        if any(k == "ext-keep" for k in case["kinds"]):
            # an earlier session has outsourced a part already: the file holds external(...) before this one
            only = [f"test_{i}" for i, k in enumerate(case["kinds"]) if k == "ext-keep"]
            r = drivers.run_pytest(d, ["--inline-snapshot=create", "-k", " or ".join(only)])
            if "INTERNALERROR" in r.stdout or r.returncode not in (0, 1):
                raise Violation("session-broken", f"first session rc={r.returncode}\n{src}\n{r.stdout[-1500:]}")
        r = drivers.run_pytest(d, ["--inline-snapshot=create,fix"])
        if "INTERNALERROR" in r.stdout or r.returncode not in (0, 1):
            raise Violation("session-broken", f"rc={r.returncode}\n{src}\n{r.stdout[-1500:]}")
        text = r.files_after["test_a.py"].decode()
        for flags in (["--inline-snapshot=disable"], []):
            r2 = drivers.run_pytest(d, flags)
            if r2.returncode != 0:
                raise Violation("rewritten-session-fails",
                                f"rerun {flags} rc={r2.returncode}\n--- before\n{src}\n--- after\n{text}\n{r2.stdout[-1500:]}")
    finally:
        shutil.rmtree(d, ignore_errors=True)
    whats = {k.split("-")[0] for k in case["kinds"]}
    return {"nontrivial": bool(whats & {"ext", "opaque"}), "classes": ["session:" + "+".join(sorted(whats))],
            "sample": {"before": src, "after": text}}


ARMS = [
    HypArm("inner", _strategy_inner, check_inner, budget={"quick": 300, "thorough": 10000}),
    HypArm("real_session", _strategy_session, check_session, budget={"quick": 32, "thorough": 600}, shrink=False,
           min_per_shard=2),
    HypArm("create_fix", _strategy, check, signature=signature,
           budget={"quick": 1500, "thorough": 100000}),
]
