"""C11 - fixing a container keeps what did not change."""

from __future__ import annotations

import ast
import itertools

import vf_prelude
from hypothesis import strategies as st

from .. import drivers, gen_render as gr, gen_values as gv, oracles
from ..models.lcs import common_prefix, common_suffix, lcs_len
from ..runner import EnumArm, HypArm, Violation
from .c05 import has_positional_call

ID = "C11"
LEVEL = "exploration"
RULE = (
    "align_enum: all pairs of sequences over {0,1,2} up to length 4 (quick; 14 641 pairs) / 5 (thorough; "
    "132 496) are passed to align and add_x (exhaustive for that sub-space); align_hyp: random pairs up to "
    "length 40 over alphabets of 2-6 symbols. Oracle: edit-script validity (#m+#d = len(a), #m+#i = len(b), "
    "every m pairs equal elements), #m equals an independently computed LCS length, the script starts/ends "
    "with the common prefix/suffix as m, add_x only turns adjacent d^n i^n runs into x^n. keep_text: an old "
    "container display (list, tuple, dict, constructor call; nested) rendered noisily (0+1, (2), 'a' 'b', hex, "
    "odd spacing, comments, line breaks) and a new value derived by an edit script; one in-process run with "
    "fix approved and update not; the argument before and after is segmented with python's ast and compared "
    "recursively: a sub-expression whose value is unchanged keeps its source text verbatim, dict entries and "
    "keyword arguments are matched by key, sequence elements in the equal common prefix/suffix keep their "
    "text, the number of element texts surviving in order is >= LCS(old values, new values), and the final "
    "value equals the new value. keep_text_sessions: the same cases through real sessions with `fix` and `fix,report` "
    "(the pending update is displayed but declined): the file must be what the in-process fix-only run writes. "
    "non-trivial (enum/hyp) = both non-empty, unequal, LCS > 0; (keep_text) = "
    ">= 1 surviving and >= 1 edited element in one container whose surviving text is not canonical."
)
ASSUMPTIONS = [
    "python's ast segments (get_source_segment) are the trusted element boundaries",
    "previous texts with positional constructor arguments excluded (known finding F14)",
]
EXHAUSTIVE = True

ENUM_LEN = {"quick": 4, "thorough": 5}
SYMS = [0, 1, 2]


def check_script(a, b):
    from inline_snapshot._align import add_x, align

    try:
        script = align(a, b)
    except Exception as e:
        raise Violation("align-raises", f"align({a},{b}): {type(e).__name__}: {e}")
    if set(script) - set("mdi"):
        raise Violation("align-alphabet", f"align({a},{b}) = {script!r}")
    ia = ib = 0
    nm = 0
    for c in script:
        if c == "m":
            if ia >= len(a) or ib >= len(b) or a[ia] != b[ib]:
                raise Violation("align-m-unequal", f"align({a},{b}) = {script!r}")
            ia += 1
            ib += 1
            nm += 1
        elif c == "d":
            ia += 1
        else:
            ib += 1
    if ia != len(a) or ib != len(b):
        raise Violation("align-lengths", f"align({a},{b}) = {script!r}")
    L = lcs_len(a, b)
    if nm != L:
        raise Violation("align-not-lcs", f"align({a},{b}) = {script!r} has {nm} matches, LCS = {L}")
    p = common_prefix(a, b)
    s = common_suffix(a, b, p) if not (p == len(a) == len(b)) else 0
    if not script.startswith("m" * p):
        raise Violation("align-prefix", f"align({a},{b}) = {script!r}, common prefix {p}")
    if s and not script.endswith("m" * s):
        raise Violation("align-suffix", f"align({a},{b}) = {script!r}, common suffix {s}")
    x = add_x(script)
    if len(x) != len(script) - x.count("x"):
        raise Violation("add_x-length", f"add_x({script!r}) = {x!r}")
    # reconstruct: every x stands for one d and one i of an adjacent d^n i^n run
    i = 0
    j = 0
    while i < len(x):
        if x[i] == "x":
            n = 0
            while i < len(x) and x[i] == "x":
                n += 1
                i += 1
            if script[j:j + 2 * n] != "d" * n + "i" * n:
                raise Violation("add_x-run", f"add_x({script!r}) = {x!r}")
            j += 2 * n
        else:
            if script[j] != x[i]:
                raise Violation("add_x-other", f"add_x({script!r}) = {x!r}")
            i += 1
            j += 1
    if j != len(script):
        raise Violation("add_x-tail", f"add_x({script!r}) = {x!r}")
    return script, x, L


def _seqs(L):
    out = []
    for n in range(L + 1):
        out += [list(t) for t in itertools.product(SYMS, repeat=n)]
    return out


def _enum(tier):
    seqs = _seqs(ENUM_LEN[tier])
    nchunks = 64

    def chunk(i):
        for k in range(i, len(seqs), nchunks):
            a = seqs[k]
            for b in seqs:
                yield {"a": a, "b": b}

    return nchunks, chunk


def check_pair(case):
    a, b = case["a"], case["b"]
    script, x, L = check_script(a, b)
    nt = bool(a) and bool(b) and a != b and L > 0
    return {"nontrivial": nt, "classes": ["x" if "x" in x else "no-x"],
            "sample": {"a": a, "b": b, "align": script, "add_x": x} if nt and len(a) >= 4 else None}


def _pair_strategy(tier):
    @st.composite
    def pairs(draw):
        k = draw(st.integers(2, 6))
        el = st.integers(0, k - 1)
        a = draw(st.lists(el, max_size=40))
        if draw(st.booleans()):
            # b derived from a by edits, so that long common runs exist
            b = list(a)
            for _ in range(draw(st.integers(0, 6))):
                c = draw(st.integers(0, 2))
                if c == 0 and b:
                    b.pop(draw(st.integers(0, len(b) - 1)))
                elif c == 1:
                    b.insert(draw(st.integers(0, len(b))), draw(el))
                elif b:
                    b[draw(st.integers(0, len(b) - 1))] = draw(el)
        else:
            b = draw(st.lists(el, max_size=40))
        return {"a": a, "b": b}

    return pairs()


# ------------------------------------------------------------------------- keep_text arm

NS = dict(vars(vf_prelude))


def _ev(node):
    return eval(compile(ast.Expression(node), "<c11>", "eval"), dict(NS))


def _seg(src, node):
    return ast.get_source_segment(src, node)


class Keep:
    def __init__(self, old_src, new_src):
        self.old_src = old_src
        self.new_src = new_src
        self.surviving_noncanonical = 0
        self.edited = 0

    def fail(self, kind, msg):
        raise Violation(kind, f"{msg}\n--- old argument\n{self.old_src}\n--- new argument\n{self.new_src}")

    def same_text(self, o, n, what):
        so, sn = _seg(self.old_src, o), _seg(self.new_src, n)
        if so != sn:
            self.fail("unchanged-element-rewritten", f"{what}: value unchanged but text {so!r} became {sn!r}")
        try:
            canonical = gr_canonical(so)
        except Exception:
            canonical = True
        if not canonical:
            self.surviving_noncanonical += 1

    def compare(self, o, n, what="arg"):
        try:
            ov, nv = _ev(o), _ev(n)
        except Exception as e:
            self.fail("unreadable", f"{what}: {type(e).__name__}: {e}")
        try:
            equal = bool(ov == nv)
        except Exception:
            equal = False
        if equal:
            self.same_text(o, n, what)
            return
        self.edited += 1
        if type(ov) is not type(nv):
            return
        if isinstance(o, (ast.List, ast.Tuple)) and type(o) is type(n) and isinstance(ov, (list, tuple)):
            if any(isinstance(e, ast.Starred) for e in o.elts):
                return
            ovs, nvs = list(ov), list(nv)
            p = common_prefix(ovs, nvs)
            s = common_suffix(ovs, nvs, p)
            if len(n.elts) != len(nvs):
                return
            for i in range(p):
                self.same_text(o.elts[i], n.elts[i], f"{what}[{i}] (common prefix)")
            for i in range(1, s + 1):
                self.same_text(o.elts[-i], n.elts[-i], f"{what}[-{i}] (common suffix)")
            otx = [_seg(self.old_src, e) for e in o.elts]
            ntx = [_seg(self.new_src, e) for e in n.elts]
            kept = lcs_len(otx, ntx)
            need = lcs_len(ovs, nvs)
            if kept < need:
                self.fail("fewer-survivors-than-lcs",
                          f"{what}: {kept} element texts survive in order, LCS of values is {need}")
            if len(ovs) == len(nvs) and p + s == len(ovs) - 1:
                self.compare(o.elts[p], n.elts[p], f"{what}[{p}]")
            return
        if isinstance(o, ast.Dict) and isinstance(n, ast.Dict) and isinstance(ov, dict):
            if any(k is None for k in o.keys) or any(k is None for k in n.keys):
                return
            try:
                okeys = [_ev(k) for k in o.keys]
                nkeys = [_ev(k) for k in n.keys]
            except Exception:
                return
            for ki, kv in enumerate(okeys):
                for kj, kw in enumerate(nkeys):
                    if kv == kw and type(kv) is type(kw):
                        self.same_text(o.keys[ki], n.keys[kj], f"{what} key {kv!r}")
                        self.compare(o.values[ki], n.values[kj], f"{what}[{kv!r}]")
                        break
            return
        if (isinstance(o, ast.Call) and isinstance(n, ast.Call) and ast.dump(o.func) == ast.dump(n.func)
                and isinstance(o.func, ast.Name) and o.func.id == "defaultdict" and len(o.args) == len(n.args) == 2
                and not o.keywords and not n.keywords):
            # defaultdict(factory, {...}): the arguments correspond by position
            for i in (0, 1):
                self.compare(o.args[i], n.args[i], f"{what} argument {i}")
            return
        if isinstance(o, ast.Call) and isinstance(n, ast.Call) and not o.args and not n.args:
            if ast.dump(o.func) != ast.dump(n.func):
                return
            if any(k.arg is None for k in o.keywords + n.keywords):
                return
            nk = {k.arg: k.value for k in n.keywords}
            for k in o.keywords:
                if k.arg in nk:
                    self.compare(k.value, nk[k.arg], f"{what}.{k.arg}")
            return


def gr_canonical(text):
    """is `text` what repr/black style would write (roughly)? used only for the non-trivial count"""
    v = eval(text, dict(NS))
    return text.replace('"', "'").replace(" ", "") == gv.natural_of_value(v).replace('"', "'").replace(" ", "")


CONTAINERS = ("list", "tuple", "dict", "call")


@st.composite
def _keep_case(draw, tier):
    leaves = gv.hashable_leaves(tier)

    def extend(ch):
        hs = st.one_of(st.integers(0, 5).map(lambda i: ["int", i]),
                       st.text(alphabet="abc", min_size=1, max_size=3).map(lambda s: ["str", s]))
        opts = [
            st.lists(ch, max_size=5).map(lambda xs: ["list", xs]),
            st.lists(ch, max_size=4).map(lambda xs: ["tuple", xs]),
            st.lists(st.tuples(hs, ch).map(list), max_size=4).map(lambda kv: ["dict", kv]),
        ]
        for name in ("Point", "Box", "APoint", "PModel", "NT", "AFrozen"):
            opts.append(gv._call(name, ch))
        # a defaultdict: its content is a dict display like any other
        opts.append(st.tuples(st.sampled_from(["list", "int"]), st.lists(st.tuples(hs, ch).map(list), min_size=1, max_size=4)).map(
            lambda t: ["ddict", t[0], t[1]]))
        return st.one_of(opts)

    tree = st.recursive(st.one_of(leaves, st.integers(0, 9).map(lambda i: ["int", i])), extend,
                        max_leaves=10 if tier == "quick" else 20)
    old = draw(tree.filter(lambda d: d[0] in CONTAINERS and gv.sound(d) and gv.no_dup_keys(d)))
    new = draw(gr.mutate(old, tier))
    if not gv.sound(new) or not gv.no_dup_keys(new):
        new = old
    text = draw(gr.noisy(old, draw(st.sampled_from([1, 2, 2]))))
    return {"old": old, "new": new, "text": text}


def keep_signature(case):
    return {"positional-call-args"} if has_positional_call(case["text"]) else set()


def check_keep(case):
    old, new, text = case["old"], case["new"], case["text"]
    src = ("from inline_snapshot import snapshot\nfrom vf_prelude import *\n\n\ndef test_a():\n"
           f"    assert {gv.render(new)} == snapshot({text})\n")
    ses = drivers.run_inline({"test_a.py": src}, {"fix"})
    if not ses.ok():
        err = ses.exec_error or ses.collect_error or ses.apply_error
        tb = getattr(ses, "apply_tb", "") or getattr(ses, "collect_tb", "")
        raise Violation(f"session-exception:{type(err).__name__}", f"{type(err).__name__}: {err}\n{tb[-500:]}\n{src}")
    after = ses.files_after["test_a.py"].decode("utf-8")
    try:
        old_arg = oracles.snapshot_calls(ast.parse(src))[0].args[0]
        new_arg = oracles.snapshot_calls(ast.parse(after))[0].args[0]
    except Exception as e:
        raise Violation("unparsable", f"{type(e).__name__}: {e}\n--- before\n{src}\n--- after\n{after}")
    nv = gv.build(new)
    try:
        got = _ev(new_arg)
    except Exception as e:
        raise Violation("unreadable", f"{type(e).__name__}: {e}\n--- before\n{src}\n--- after\n{after}")
    if not (got == nv and nv == got):
        raise Violation("final-value", f"after fix the argument is {got!r}, observed {nv!r}\n--- before\n{src}\n--- after\n{after}")
    k = Keep(src, after)
    k.compare(old_arg, new_arg)
    changed = gv.build(old) != nv
    return {"nontrivial": changed and k.surviving_noncanonical >= 1 and k.edited >= 1,
            "classes": [old[0], "changed" if changed else "equal"],
            "sample": {"old_text": text, "new_value": repr(nv),
                       "after": _seg(after, new_arg)} if changed else None}


def check_keep_session(case):
    """the same fix-only repair through real sessions: `--inline-snapshot=fix` and `fix,report` (where the pending
    update is displayed but declined) must write exactly what the in-process run with {fix} writes"""
    import shutil

    old, new, text = case["old"], case["new"], case["text"]
    src = ("from inline_snapshot import snapshot\nfrom vf_prelude import *\n\n\ndef test_a():\n"
           f"    assert {gv.render(new)} == snapshot({text})\n")
    ses = drivers.run_inline({"test_a.py": src}, {"fix"})
    if not ses.ok():
        return {"nontrivial": False, "classes": ["in-process-run-failed"]}
    want = ses.files_after["test_a.py"]
    flags = "fix,report" if len(text) % 2 else "fix"
    d = drivers.make_project({"test_a.py": src})
    try:
        r = drivers.run_pytest(d, ["--inline-snapshot=" + flags])
        if "INTERNALERROR" in r.stdout or r.returncode not in (0, 1):
            raise Violation("session-broken", f"rc={r.returncode}\n{src}\n{r.stdout[-1500:]}")
        got = r.files_after["test_a.py"]
    finally:
        shutil.rmtree(d, ignore_errors=True)
    if got != want:
        raise Violation("session-differs-from-fix-only",
                        f"--inline-snapshot={flags} wrote something else than a fix-only run\n--- before\n{src}\n"
                        f"--- fix only (in process)\n{want.decode()}\n--- session\n{got.decode()}")
    return {"nontrivial": want != src.encode(), "classes": ["session", flags], "sample": None}


ARMS = [
    HypArm("keep_text_sessions", lambda tier: _keep_case(tier), check_keep_session, signature=keep_signature,
           budget={"quick": 32, "thorough": 800}, shrink=False),
    EnumArm("align_enum", _enum, check_pair),
    HypArm("align_hyp", _pair_strategy, check_pair, budget={"quick": 3000, "thorough": 200000}),
    HypArm("keep_text", lambda tier: _keep_case(tier), check_keep, signature=keep_signature,
           budget={"quick": 1200, "thorough": 80000}),
]
