"""C15 - faults while rewriting never leave a half-written file or a dangling external."""

from __future__ import annotations

import ast
import json
import re
import shutil

from hypothesis import strategies as st

from .. import drivers, gen_values as gv
from ..runner import HypArm, Violation
from .c13 import NAME, REF, matches

ID = "C15"
LEVEL = "fault_enumeration"
RULE = (
    "generated projects (1-3 test files, each with 1-3 sites pending create/fix incl. multi-line values, "
    "outsourced externals and HasRepr values that need an import, formatter-clean or not, black or a "
    "format-command) are run once in a real pytest session with create,fix,trim,update while a harness-side "
    "plugin records every call at the boundaries black.format_str / format-command subprocess / reading a "
    "test file / ensure_import / DiscStorage.persist / rename of a -new file / open for writing / write / close "
    "(flush of the buffered data) / replace / "
    "SourceFile.new_code, during the tests and during session finish. Then, for *every* recorded call index and "
    "*every* fault kind applicable to that boundary (exception, OSError, non-zero exit, garbage output, "
    "valid-but-different output, correct output in a non-utf-8 encoding for files with non-ASCII text, write of a strict prefix followed by an error) one more session is run from a "
    "pristine copy with exactly that fault: exhaustive over the trace. Oracle after each faulted session: every "
    "test file is byte-equal to its previous content or to the content of the un-faulted run, or (formatter "
    "faults) parses, has the syntax tree of the un-faulted result and passes when re-executed with inline-snapshot inactive; it always parses and is never a "
    "strict prefix of the new content; a formatter crash / non-zero exit / death by a signal after partial output / empty output is reported under Problems; after a "
    "simulated next session start (all -new files pruned) every external(...) reference in every test file "
    "resolves to exactly one stored file. non-trivial = the fault hits a boundary after the first persist or "
    "before the last write of a multi-file change set."
)
ASSUMPTIONS = [
    "process crashes are approximated by exceptions at call boundaries and by prefix writes; kernel-level "
    "atomicity of rename/replace is assumed",
    "the fault plan is delivered through a harness-side pytest plugin (vf_shim) that patches from outside",
]

FORMATS = ["black", "black", "fmt-cat", "fmt-black"]


@st.composite
def _case(draw, tier):
    nfiles = draw(st.sampled_from([1, 2, 2, 3]))
    files = []
    for f in range(nfiles):
        sites = []
        for s in range(draw(st.sampled_from([1, 2, 3]))):
            kind = draw(st.sampled_from(["create", "fix", "long", "ext", "ext", "hasrepr", "ok", "unicode", "ok-unicode"]))
            sites.append({"kind": kind, "v": draw(st.integers(0, 99))})
        files.append({"sites": sites, "clean": draw(st.booleans())})
    return {"files": files, "fmt": draw(st.sampled_from(FORMATS))}


def render(case):
    out = {}
    for fi, f in enumerate(case["files"]):
        lines = ["from inline_snapshot import snapshot, outsource", "from vf_prelude import *", "", ""]
        for si, s in enumerate(f["sites"]):
            v = s["v"]
            lines.append(f"def test_{si}():")
            if s["kind"] == "create":
                lines.append(f"    assert [{v}, 'x'] == snapshot()")
            elif s["kind"] == "fix":
                lines.append(f"    assert {{'k': {v}}} == snapshot({{'k': {v + 1}, 'j': 2}})")
            elif s["kind"] == "long":
                lines.append(f"    assert ['{'a' * 50}', '{'b' * 50}', {v}] == snapshot([1])")
            elif s["kind"] == "ext":
                lines.append(f"    assert outsource('data-{fi}-{si}-{v}') == snapshot()")
            elif s["kind"] == "hasrepr":
                lines.append(f"    assert [Opaque({v % 5})] == snapshot()")
            elif s["kind"] == "unicode":
                lines.append(f"    assert 'café-{v}' == snapshot()  # ünï")
            elif s["kind"] == "ok-unicode":
                lines.append(f"    assert 'naïve-{v}' == snapshot('naïve-{v}')")
            else:
                lines.append(f"    assert {v} == snapshot({v})")
            lines += ["", ""]
        src = "\n".join(lines).rstrip("\n") + "\n"
        if f["clean"]:
            import black

            src = black.format_str(src, mode=black.Mode())
        else:
            src = src.replace("assert ", "assert  ", 1)
        out[f"test_f{fi}.py"] = src
    toml = "[tool.black]\nline-length = 88\n"
    if case["fmt"] == "fmt-cat":
        toml += '\n[tool.inline-snapshot]\nformat-command = "VF_FORMAT=1 cat"\n'
    elif case["fmt"] == "fmt-black":
        toml += '\n[tool.inline-snapshot]\nformat-command = "VF_FORMAT=1 /venv/bin/python -m black -q --stdin-filename {filename} -"\n'
    out["pyproject.toml"] = toml
    return out


ARGS = ["-p", "vf_shim", "--inline-snapshot=create,fix,trim,update"]


def session(files, env):
    d = drivers.make_project(files, pyproject=None)
    try:
        r = drivers.run_pytest(d, ARGS, env=env)
        return r
    finally:
        shutil.rmtree(d, ignore_errors=True)


def storage_of(all_files):
    return {k.split("/")[-1]: v for k, v in all_files.items()
            if "/external/" in k and not k.endswith(".gitignore")}


def check(case):
    from vf_shim import KINDS

    files = render(case)
    work = drivers.fresh_dir("c15t")
    try:
        trace_file = work / "trace.jsonl"
        base = session(files, {"VF_TRACE": str(trace_file)})
        if "INTERNALERROR" in base.stdout or base.returncode not in (0, 1):
            raise RuntimeError(f"harness: un-faulted run broken rc={base.returncode}\n{base.stdout[-2000:]}\n{base.stderr[-2000:]}")
        trace = [json.loads(l) for l in trace_file.read_text().splitlines()] if trace_file.exists() else []
        good = {k: v for k, v in base.files_after.items()}
        for k, v in good.items():
            try:
                ast.parse(v.decode())
            except SyntaxError as e:
                raise Violation("unfaulted-run-unparsable", f"{k}: {e}\n{v.decode()}")
        names = [t["name"] for t in trace]
        first_persist = names.index("persist") if "persist" in names else None
        last_write = max((i for i, n in enumerate(names) if n == "write"), default=None)
        n_runs = 0
        nontrivial_points = 0
        classes = []
        from concurrent.futures import ThreadPoolExecutor

        plan = [(t, kind) for t in trace for kind in KINDS[t["name"]]]

        def one(tk):
            t, kind = tk
            fired = work / f"fired_{t['i']}_{kind}"
            r = session(files, {"VF_FAULT_PLAN": f"{t['i']}:{kind}", "VF_FIRED": str(fired)})
            return t, kind, r, fired.exists()

        with ThreadPoolExecutor(8) as ex:
            results = list(ex.map(one, plan))
        multi = sum(1 for k in good if k.endswith(".py") and good[k] != files[k].encode()) >= 2
        for t, kind, r, did_fire in results:
            n_runs += 1
            if not did_fire:
                raise RuntimeError(f"harness: fault {t} {kind} did not fire (non-deterministic trace?)")
            judge(case, files, good, t, kind, r)
            classes.append(f"{t['name']}:{kind}")
            if (first_persist is not None and t["i"] > first_persist) or (
                    multi and last_write is not None and t["i"] < last_write):
                nontrivial_points += 1
        return {"nontrivial": nontrivial_points > 0, "classes": sorted(set(classes)) + [case["fmt"]],
                "extra": {"faulted_sessions": n_runs, "boundary_calls": len(trace), "nontrivial_fault_points": nontrivial_points},
                "sample": {"fmt": case["fmt"], "files": {k: v for k, v in files.items()},
                           "trace": [f"{t['i']}:{t['phase']}:{t['name']}" for t in trace]}}
    finally:
        shutil.rmtree(work, ignore_errors=True)


def judge(case, files, good, t, kind, r):
    where = f"fault {kind} at boundary call #{t['i']} {t['name']} (phase {t['phase']}), formatter {case['fmt']}"

    def fail(k, msg):
        proj = "\n".join(f"# {n}\n{c}" for n, c in files.items() if n.endswith(".py"))
        raise Violation(k, f"{where}\n{msg}\n--- project\n{proj}\n--- output\n{r.stdout[-1800:]}\n{r.stderr[-1200:]}")

    formatter_fault = t["name"] in ("black.format_str", "format-command")
    for name, before in files.items():
        if not name.endswith(".py"):
            continue
        before_b = before.encode()
        now = r.files_after.get(name)
        if now is None:
            fail("file-lost", f"{name} does not exist any more")
        if now == before_b or now == good[name]:
            continue
        if len(now) < len(good[name]) and good[name].startswith(now):
            fail("truncated-file", f"{name} holds a strict prefix ({len(now)} of {len(good[name])} bytes) of its new content")
        try:
            text = now.decode("utf-8")
            ast.parse(text)
        except Exception as e:
            fail("broken-file", f"{name} is neither its previous nor its new content and does not parse: {e}\n{now[:600]!r}")
        if not formatter_fault:
            fail("mixed-content", f"{name} is neither its previous nor its complete new content\n{text}")
    if formatter_fault and kind in ("raise", "nonzero", "empty", "killed") and "Problems" not in r.stdout:
        # the problem must be reported (unless the session could not get that far)
        if "Traceback" not in r.stderr and "INTERNALERROR" not in r.stdout:
            fail("formatter-failure-not-reported", "no Problems section in the report")
    # formatter faults: whatever was written must still be correct code
    if formatter_fault:
        changed = {n: c for n, c in r.files_after.items() if n.endswith(".py") and c != files[n].encode() and c != good[n]}
        for n, c in changed.items():
            # a formatter only changes the layout: the code is the one of the un-faulted run
            if ast.dump(ast.parse(c.decode("utf-8"))) != ast.dump(ast.parse(good[n].decode("utf-8"))):
                fail("formatter-fault-changed-code",
                     f"{n} is not the same code as after the un-faulted run\n--- un-faulted\n{good[n].decode()}\n--- now\n{c.decode()}")
        if changed:
            d = drivers.make_project({**{n: c for n, c in r.all_after.items() if not n.startswith(".vf")}}, pyproject=None)
            try:
                r2 = drivers.run_pytest(d, ["--inline-snapshot=disable"] + sorted(changed))
                if r2.returncode != 0:
                    fail("unformatted-code-not-correct",
                         "a file written after a formatter fault does not pass with inline-snapshot disabled:\n"
                         + "\n".join(c.decode() for c in changed.values()) + r2.stdout[-1500:])
            finally:
                shutil.rmtree(d, ignore_errors=True)
    # next session start: -new files are pruned; every reference must resolve
    store = {n: c for n, c in storage_of(r.all_after).items() if not NAME.match(n) or not NAME.match(n).group(2)}
    for name, content in r.files_after.items():
        if not name.endswith(".py"):
            continue
        for m in REF.finditer(content.decode("utf-8", "replace")):
            ms = matches(store, m.group(1), m.group(2))
            if len(ms) != 1:
                fail("dangling-external-reference",
                     f'{name} references external("{m.group(1)}*{m.group(2)}") but after the next session start '
                     f"{len(ms)} stored files match (storage: {sorted(storage_of(r.all_after))})")


ARMS = [HypArm("faults", lambda tier: _case(tier), check, budget={"quick": 12, "thorough": 400}, shrink=False, min_per_shard=4)]
