"""C16 - generated code is deterministic and independent of the formatter's presence."""

from __future__ import annotations

import ast
import json
import os
import shutil
import subprocess
import sys
import time
from collections import Counter
from concurrent.futures import ThreadPoolExecutor

import vf_prelude
from hypothesis import HealthCheck, given, seed as hseed, settings, strategies as st

from .. import drivers, gen_values as gv, oracles
from ..runner import FuncArm, Stats, Violation, case_hash, derive_seed

ID = "C16"
LEVEL = "exploration"
RULE = (
    "a batch of generated values rich in sets / frozensets / dicts (str members, mixed non-orderable members, "
    "sets of frozensets and of tuples holding frozensets, enum / dataclass members; strings with blanks and "
    "quotes at their ends, alone and inside lists / dicts) is created in an empty snapshot() - or fixed in a "
    "snapshot that holds another value of the same shape - by separate interpreter processes, one per cell of PYTHONHASHSEED in {0,1,2,3,random} x "
    "formatter in {black, black missing, format-command cat, format-command black}; every value is built in "
    "3 construction histories (given order, reversed order, after add/discard churn that resizes the table). "
    "Oracle: across hash seeds and construction histories the rewritten argument text is byte-identical; "
    "across formatter configurations the argument has the same ast.dump and evaluates to an equal value. "
    "For dicts built in another insertion order only the evaluated value is compared (insertion order is "
    "part of a dict's observable value). non-trivial = the value holds a set/frozenset with >= 2 members that "
    "are str, or not mutually orderable, or only partially ordered; or (every sixth case) a dict with 2-5 distinct "
    "str keys that a [key] snapshot holding another key gains key by key in one session."
)
ASSUMPTIONS = ["one black version (26.5.1); 5 hash seeds and 4 formatter configurations per tier"]

NS = dict(vars(vf_prelude))

SEEDS = {"quick": ["0", "1", "2", "random"], "thorough": ["0", "1", "2", "3", "4", "5", "random", "random"]}
FORMATS = {"quick": ["black", "noblack"], "thorough": ["black", "noblack", "fmt-cat", "fmt-black"]}
BATCH = {"quick": 90, "thorough": 1500}


def set_values(tier):
    strs = st.one_of(st.text(alphabet="abcdefgh", min_size=0, max_size=3),
                     st.text(alphabet="ab \"'", min_size=1, max_size=4)).map(lambda s: ["str", s])
    ints = st.integers(-5, 20).map(lambda i: ["int", i])
    leaf = st.one_of(strs, strs, ints, st.just(["none"]), gv.enums(), gv.flags(),
                     st.binary(max_size=2).map(lambda b: ["bytes", list(b)]),
                     st.sampled_from([["float", "1.5"], ["float", "0.5"], ["bool", True], ["type", "int"],
                                      ["type", "str"]]))

    def extend(ch):
        return st.one_of(
            st.lists(ch, max_size=4).map(lambda xs: ["frozenset", xs]),
            st.lists(ch, max_size=3).map(lambda xs: ["tuple", xs]),
            st.tuples(ch, ch).map(lambda t: ["call", "FPoint", [["x", t[0]], ["y", t[1]]]]),
            ch.map(lambda x: ["call", "TNT", [["p", x]]]),
        )

    h = st.recursive(leaf, extend, max_leaves=6)
    top = st.one_of(
        st.lists(h, min_size=2, max_size=6).map(lambda xs: ["set", xs]),
        st.lists(h, min_size=2, max_size=6).map(lambda xs: ["frozenset", xs]),
        st.lists(st.tuples(h, h).map(list), min_size=1, max_size=4).map(lambda kv: ["dict", kv]),
        st.lists(st.lists(h, min_size=2, max_size=4).map(lambda xs: ["set", xs]), min_size=1, max_size=3).map(
            lambda xs: ["list", xs]),
        # a list subclass holding sets (its elements must be written like those of a list)
        st.lists(st.lists(strs, min_size=2, max_size=5).map(lambda xs: ["set", xs]), min_size=1, max_size=3).map(
            lambda xs: ["mylist", xs]),
        # set / frozenset subclasses
        st.lists(strs, min_size=2, max_size=5).map(lambda xs: ["myset", xs]),
        st.lists(st.lists(strs, min_size=2, max_size=5).map(lambda xs: ["myfrozen", xs]), min_size=1, max_size=3).map(
            lambda xs: ["list", xs]),
        st.lists(st.lists(strs, min_size=2, max_size=5).map(lambda xs: ["frozenset", xs]), min_size=2,
                 max_size=4).map(lambda xs: ["set", xs]),
    )
    # strings on their own and as members of ordinary containers: a formatter treats a lone string statement
    # differently (docstring handling), which must not show in the generated code
    padded = st.text(alphabet="ab \"'", min_size=1, max_size=6).map(lambda s: ["str", s])
    top = st.one_of(top, top, top, padded, st.lists(padded, min_size=1, max_size=3).map(lambda xs: ["list", xs]),
                    st.lists(st.tuples(strs, padded).map(list), min_size=1, max_size=3,
                             unique_by=lambda kv: kv[0][1]).map(lambda kv: ["dict", kv]),
                    # several str keys: also run as a [key] snapshot that gains these keys in one session
                    st.lists(st.tuples(strs, st.one_of(ints, strs)).map(list), min_size=2, max_size=5,
                             unique_by=lambda kv: kv[0][1]).map(lambda kv: ["dict", kv]))
    return top.filter(gv.sound)


def keyed_values():
    """dicts with several distinct str keys, run as a [key] snapshot that gains these keys in one session"""
    strs = st.one_of(st.text(alphabet="abcdefgh", min_size=0, max_size=3),
                     st.text(alphabet="ab \"'", min_size=1, max_size=4)).map(lambda s: ["str", s])
    ints = st.integers(-5, 20).map(lambda i: ["int", i])
    return st.lists(st.tuples(strs, st.one_of(ints, strs)).map(list), min_size=2, max_size=5,
                    unique_by=lambda kv: kv[0][1]).map(lambda kv: ["dict", kv])


def module_for(case, variant):
    """variant 0: given order; 1: reversed member order; 2: add/discard churn before filling"""
    d = case["value"]

    def r(x):
        k = x[0]
        if k in ("set", "frozenset"):
            items = [r(i) for i in x[1]]
            if variant == 1:
                items = items[::-1]
            ctor = k
            if variant == 2:
                return f"churn({ctor}, [{', '.join(items)}])"
            return f"{ctor}([{', '.join(items)}])"
        if k == "dict":
            return "dict([" + ", ".join(f"({r(a)}, {r(b)})" for a, b in x[1]) + "])"
        if k in ("list", "tuple"):
            return f"{k}([" + ", ".join(r(i) for i in x[1]) + "])"
        if k == "mylist":
            return "MyList([" + ", ".join(r(i) for i in x[1]) + "])"
        if k in ("myset", "myfrozen"):
            items = [r(i) for i in x[1]]
            if variant == 1:
                items = items[::-1]
            return ("MySet" if k == "myset" else "MyFrozen") + "([" + ", ".join(items) + "])"
        if k == "call":
            return f"{x[1]}(**dict([" + ", ".join(f"({n!r}, {r(v)})" for n, v in x[2]) + "]))"
        return gv.render(x)

    head = ("from inline_snapshot import snapshot\nfrom vf_prelude import *\n\n\n"
            "def churn(ctor, items):\n    s = set(range(1000, 1400))\n    for i in range(1000, 1400):\n"
            "        s.discard(i)\n    for x in items:\n        s.add(x)\n    return ctor(s) if ctor is frozenset else s\n\n\n")
    if case.get("mode") == "getitem":
        # a [key] snapshot that holds one key already and gains the others in the order of their first use
        pairs = ", ".join(f"({r(a)}, {r(b)})" for a, b in d[1])
        return (head + f"def test_a():\n    s = snapshot({{{PREV_KEY!r}: 0}})\n    assert 0 == s[{PREV_KEY!r}]\n"
                f"    for k, v in [{pairs}]:\n        assert v == s[k]\n")
    return ("from inline_snapshot import snapshot\nfrom vf_prelude import *\n\n\n"
            "def churn(ctor, items):\n    s = set(range(1000, 1400))\n    for i in range(1000, 1400):\n"
            "        s.discard(i)\n    for x in items:\n        s.add(x)\n    return ctor(s) if ctor is frozenset else s\n\n\n"
            f"def test_a():\n    assert {r(d)} == snapshot({case.get('prev') or ''})\n")


PREV_KEY = "zz-prev"


def nontrivial(d):
    for x in gv.walk(d):
        if x[0] in ("set", "frozenset", "myset", "myfrozen") and len(x[1]) >= 2:
            kinds = {m[0] for m in x[1]}
            if "str" in kinds or len(kinds) > 1 or kinds & {"frozenset", "tuple", "call", "none", "enum"}:
                return True
    return False


def make_batch(tier, seed, n):
    cases = []

    @hseed(seed)
    @settings(max_examples=n, database=None, deadline=None, suppress_health_check=list(HealthCheck),
              phases=[__import__("hypothesis").Phase.generate])
    @given(set_values(tier), keyed_values())
    def collect(v, keyed):
        if len(cases) % 6 == 5:
            cases.append({"value": keyed, "variants": 3, "prev": None, "mode": "getitem"})
            return
        # the snapshot is empty (create) or holds another value of the same shape (fix replaces leaves in place)
        prev = None
        if len(cases) % 2 == 1 and v[0] in ("str", "list", "dict"):
            if v[0] == "str":
                prev = "'x'"
            elif v[0] == "list":
                prev = "[" + ", ".join(f"'x{i}'" for i in range(len(v[1]))) + "]"
            else:
                prev = "{" + ", ".join(f"{gv.natural(k)}: 'x{i}'" for i, (k, _x) in enumerate(v[1])) + "}"
        case = {"value": v, "variants": 3, "prev": prev}
        if v[0] == "dict" and len(v[1]) >= 2 and all(k[0] == "str" for k, _x in v[1]) \
                and len({k[1] for k, _x in v[1]}) == len(v[1]) and len(cases) % 3 != 0:
            case["mode"] = "getitem"
            case["prev"] = None
        cases.append(case)

    collect()
    return cases


def check_single(case):
    r = run("quick", 0, frozenset(), time.time() + 600, batch=[case])
    if r["error"]:
        raise RuntimeError(r["error"])
    if r["violations"]:
        v = r["violations"][0]
        raise Violation(v["kind"], v["message"])
    return {}


def run(tier, seed, known_sigs, deadline, batch=None):
    stats = Stats()
    scale = float(os.environ.get("VERIF_BUDGET_SCALE", "1") or 1)
    if batch is None:
        batch = make_batch(tier, derive_seed(seed, ID, "batch"), max(4, int(BATCH[tier] * scale)))
    work = drivers.fresh_dir("c16")
    # split the batch into chunks so that all cores are used
    nchunks = min(len(batch), 4 if tier == "quick" else 16)
    chunks = [batch[i::nchunks] for i in range(nchunks)]
    cells = [(hs, fmt) for fmt in FORMATS[tier] for hs in SEEDS[tier]]
    jobs = []
    for ci, chunk in enumerate(chunks):
        bf = work / f"batch{ci}.json"
        bf.write_text(json.dumps(chunk))
        for hs, fmt in cells:
            if fmt.startswith("fmt-") and hs not in ("0", "random"):
                continue  # format-command cells are expensive: two hash seeds are enough for the layout clause
            jobs.append((ci, hs, fmt, bf, work / f"out{ci}_{hs}_{fmt}_{len(jobs)}.json"))

    def launch(job):
        ci, hs, fmt, bf, of = job
        env = dict(os.environ)
        env["PYTHONHASHSEED"] = hs
        p = subprocess.run([sys.executable, "-m", "vf.cells.c16_cell", str(bf), str(of), fmt],
                           env=env, capture_output=True, text=True, cwd=os.environ.get("VERIF_HOME", "."))
        if p.returncode != 0:
            raise RuntimeError(f"cell {job[:3]} failed: {p.stderr[-2000:]}")
        return json.load(open(of))

    with ThreadPoolExecutor(16) as ex:
        results = list(ex.map(launch, jobs))
    shutil.rmtree(work, ignore_errors=True)

    # regroup: per case -> {(hs, fmt, jobindex): row}
    for ci, chunk in enumerate(chunks):
        rows = {(j[1], j[2], ji): results[ji] for ji, j in enumerate(jobs) if j[0] == ci}
        for k, case in enumerate(chunk):
            stats.evaluations += 1
            per_cell = {key: r[k] for key, r in rows.items()}
            try:
                info = judge(case, per_cell)
                stats.record(case, info)
            except Violation as v:
                if len(stats.violations) < 10:
                    stats.violations.append({"kind": v.kind, "message": v.message, "case": case, "detail": None})
    stats.extra["cells"] = len(cells)
    stats.extra["processes"] = len(jobs)
    return stats.to_dict()


def arg_of(text):
    try:
        return oracles.site_arg_texts(text)[0]
    except Exception as e:
        raise Violation("unparsable", f"{e}\n{text}")


def judge(case, per_cell):
    texts_by_fmt = {}
    for (hs, fmt, _ji), row in per_cell.items():
        for variant, r in enumerate(row):
            if "harness_error" in r:
                raise RuntimeError(r["harness_error"])
            if "error" in r:
                raise Violation("cell-error", f"PYTHONHASHSEED={hs} formatter={fmt} variant={variant}: {r['error']}\n{module_for(case, variant)}")
            texts_by_fmt.setdefault(fmt, []).append(((hs, variant), arg_of(r["text"])))
    ref_dump = None
    ref_val = None
    for fmt, items in texts_by_fmt.items():
        first_key, first = items[0]
        # same construction history, other hash seed: the surrounding file is identical -> identical bytes
        by_variant = {}
        for (hs, variant), t in items:
            by_variant.setdefault(variant, []).append((hs, t))
        for variant, lst in by_variant.items():
            for hs, t in lst[1:]:
                if t != lst[0][1]:
                    raise Violation("text-depends-on-hash-seed-or-history",
                                    f"formatter={fmt} history={variant}: PYTHONHASHSEED={lst[0][0]} wrote\n  {lst[0][1]}\n"
                                    f"PYTHONHASHSEED={hs} wrote\n  {t}\nvalue: {gv.render(case['value'])}")
        # other construction history: the observed expression in the file is spelled differently (the line
        # is longer), so the formatter may wrap the argument differently; the tokens must be identical
        for key, t in items[1:]:
            if "".join(t.split()) != "".join(first.split()):
                raise Violation("text-depends-on-hash-seed-or-history",
                                f"formatter={fmt}: (PYTHONHASHSEED, history)={first_key} wrote\n  {first}\n{key} wrote\n  {t}\n"
                                f"value: {gv.render(case['value'])}")
        try:
            tree = ast.parse("(" + first + "\n)", mode="eval")
            val = eval(compile(tree, "<c16>", "eval"), dict(NS))
        except Exception as e:
            raise Violation("unreadable", f"formatter={fmt}: {type(e).__name__}: {e}\n{first}")
        dump = ast.dump(tree)
        if ref_dump is None:
            ref_dump, ref_val, ref_fmt, ref_text = dump, val, fmt, first
        else:
            if dump != ref_dump:
                raise Violation("formatter-changes-syntax-tree",
                                f"{ref_fmt} wrote\n  {ref_text}\n{fmt} wrote\n  {first}")
            if not (val == ref_val):
                raise Violation("formatter-changes-value", f"{ref_fmt}: {ref_val!r}  {fmt}: {val!r}")
    want = gv.build(case["value"])
    if case.get("mode") == "getitem":
        want = {PREV_KEY: 0, **want}
    if not (ref_val == want and want == ref_val):
        raise Violation("value", f"written {ref_val!r}, observed {want!r}")
    return {"nontrivial": nontrivial(case["value"]) or case.get("mode") == "getitem",
            "classes": [case.get("mode") or case["value"][0]],
            "sample": {"value": gv.render(case["value"]), "written": ref_text}}


ARMS = [FuncArm("matrix", run, check=check_single)]
