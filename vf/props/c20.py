"""C20 - a formatter-clean test file stays formatter-clean."""

from __future__ import annotations

import ast

from hypothesis import strategies as st

from .. import drivers, gen_programs as gp, gen_values as gv, oracles
from ..runner import HypArm, Violation
from .c05 import flag_sets, has_positional_call

ID = "C20"
LEVEL = "exploration"
RULE = (
    "programs of 1-4 sites (noisy previous texts or none; observed values include strings and nested "
    "containers sized around the configured line length, so that the enclosing statement must be re-wrapped, "
    "and elements that trigger magic trailing commas) under a generated [tool.black] section (line-length "
    "20..120, skip-magic-trailing-comma, skip-string-normalization, preview); the harness formats the module "
    "with its own black.Mode built from those options (independent TOML handling) to make it clean, or leaves it "
    "unclean; black through its API or as a format-command (quiet, or also writing to stderr); optionally the file holds other code whose black layout depends on the python versions black infers "
    "from the file (long with-statements, star-argument calls, return unpacking, match, type parameters); approved set drawn from the 16 subsets (create+fix weighted up). Oracle, clean before: "
    "black(new, same mode) == new; if not, the text u that was handed to the whole-file formatting step is "
    "captured and black(black(u)) == black(u) is checked - when black itself is not idempotent there the case is "
    "counted as formatter instability, not as a violation. Oracle, unclean before and no format-command: the "
    "bytes outside all snapshot arguments are unchanged (no whole-file re-formatting). non-trivial = clean file "
    "that changed and (the mode differs from black's default or a changed argument spans several lines)."
)
ASSUMPTIONS = ["black 26.5.1's own idempotence is separated out, not judged",
               "positional constructor arguments excluded (F14)"]


@st.composite
def _mode(draw):
    return {
        "line_length": draw(st.one_of(st.none(), st.integers(20, 120), st.sampled_from([40, 60, 79, 88, 100]))),
        "skip_magic_trailing_comma": draw(st.sampled_from([None, False, True])),
        "skip_string_normalization": draw(st.sampled_from([None, False, True])),
        "preview": draw(st.sampled_from([None, None, False, True])),
    }


FMTCMDS = {
    "quiet": "/venv/bin/python -m black -q --stdin-filename {filename} -",
    # a working formatter that also talks on stderr (black without -q, a linter | formatter pipeline)
    "stderr": "sh -c 'echo reformatted - 1>&2; exec /venv/bin/python -m black -q --stdin-filename {filename} -'",
}


def pyproject_of(mode, fmtcmd=None):
    lines = ["[tool.black]"]
    if mode["line_length"] is not None:
        lines.append(f"line-length = {mode['line_length']}")
    for k in ("skip_magic_trailing_comma", "skip_string_normalization", "preview"):
        if mode[k] is not None:
            lines.append(f"{k.replace('_', '-')} = {'true' if mode[k] else 'false'}")
    if fmtcmd:
        lines += ["", "[tool.inline-snapshot]", f'format-command = "{FMTCMDS[fmtcmd]}"']
    return "\n".join(lines) + "\n"


def black_mode(mode):
    import black

    return black.Mode(
        line_length=mode["line_length"] if mode["line_length"] is not None else 88,
        magic_trailing_comma=not bool(mode["skip_magic_trailing_comma"]),
        string_normalization=not bool(mode["skip_string_normalization"]),
        preview=bool(mode["preview"]),
    )


A, B = "a" * 34, "b" * 38
FILLERS = {
    "with": f"def filler():\n    with open('{A}') as fffffffffffffffffff, open('{B}') as ggggggggggggggggggggg:\n        pass\n",
    "with312": f"def filler[T](x: T) -> T:\n    with open('{A}') as fffffffffffffffffff, open('{B}') as ggggggggggggggggggggg:\n        return x\n",
    "star_args": f"def filler(*args, **kwargs):\n    return print('{A}', '{B}', 'cccccccccccccccccccccccccc', *args, **kwargs)\n",
    "star_args_fstring": f"def filler(*args, **kwargs):\n    return print(f'{A}', '{B}', 'cccccccccccccccccccccccccc', *args, **kwargs)\n",
    "match": "def filler(v):\n    match v:\n        case [1, *rest]:\n            return rest\n        case {'k': x}:\n            return x\n",
    "walrus": f"def filler(v):\n    if (nnnnnnnnnnnnnnnnnnnnnnnnn := len(v) + len('{A}') + len('{B}') + 11111111111111) > 3:\n        return nnnnnnnnnnnnnnnnnnnnnnnnn\n",
    "return_annot": f"def filler(aaaaaaaaaaaaaaaaaaaaaaaaa: int, bbbbbbbbbbbbbbbbbbbbbbbbbbbbbb: str = '{A}') -> dict[str, list[int]]:\n    return {{}}\n",
    "del_parens": f"def filler():\n    xxxxxxxxxxxxxxxxxxxxxxxxxxxxxxxx = yyyyyyyyyyyyyyyyyyyyyyyyyyyyyyyyyyyyyyyyyy = zzzzzzzzzzzzzzzzzzzzzzzzzzzzzzzzzz = 1\n    del (xxxxxxxxxxxxxxxxxxxxxxxxxxxxxxxx, yyyyyyyyyyyyyyyyyyyyyyyyyyyyyyyyyyyyyyyyyy, zzzzzzzzzzzzzzzzzzzzzzzzzzzzzzzzzz)\n",
    "unpack_return": f"def filler(a):\n    return *a, '{A}', '{B}', 'ccccccccccccccccccccccccccccccccccc'\n",
}


@st.composite
def _case(draw, tier):
    mode = draw(_mode())
    ll = mode["line_length"] or 88
    prog = draw(gp.program_with_prev(tier, max_sites=4, styles=("assert", "record"), max_leaves=8,
                                     places=("assert", "assert", "var", "module", "helper")))
    # add a site whose value is sized around the line length
    n = draw(st.integers(max(1, ll - 45), ll + 15))
    long_val = draw(st.sampled_from([
        ["str", "a" * n],
        ["list", [["str", "b" * (n // 3)], ["str", "c" * (n // 3)], ["int", 1]]],
        ["dict", [[["str", "k"], ["list", [["int", i] for i in range(max(1, n // 4))]]]]],
        ["tuple", [["str", "x" * (n // 2)], ["tuple", [["str", "y" * (n // 2)]]]]],
        ["call", "Box", [["items", ["list", [["str", "w" * (n // 2)]]]], ["name", ["str", "n" * (n // 3)]]]],
    ]))
    prev = draw(st.sampled_from([None, "[1,]", "'short'"]))
    prog["sites"].append({"op": "eq", "prev": prev, "prev_desc": None if prev is None else ["int", 0],
                          "events": [long_val], "place": "assert", "style": "assert", "rev": False})
    prog["tests"][-1].append(len(prog["sites"]) - 1)
    F = draw(st.one_of(st.just(["create", "fix"]), st.just(["create", "fix", "trim", "update"]), flag_sets()))
    return {"prog": prog, "mode": mode, "F": F, "clean": draw(st.sampled_from([True, True, False])),
            # other code in the file whose layout depends on what black infers about the python version
            "filler": draw(st.sampled_from([None, None] + sorted(FILLERS))),
            # black as a format-command (it reads the same [tool.black] section), quiet or talking on stderr
            "fmtcmd": draw(st.sampled_from([None, None, None, None, "quiet", "stderr"]))}


def signature(case):
    from .c05 import signature as c05_signature

    return c05_signature(case)


def check(case):
    import black
    import inline_snapshot._rewrite_code as rc

    mode = black_mode(case["mode"])
    src, order = gp.render_program(case["prog"])
    if case.get("filler"):
        src += "\n\n" + FILLERS[case["filler"]]
    clean = False
    if case["clean"]:
        try:
            f1 = black.format_str(src, mode=mode)
            if black.format_str(f1, mode=mode) == f1:
                src, clean = f1, True
        except Exception:
            pass
    else:
        try:
            if black.format_str(src, mode=mode) == src:
                clean = True
        except Exception:
            pass
    captured = []
    orig = rc.format_code

    def spy(text, filename):
        captured.append(text)
        return orig(text, filename)

    rc.format_code = spy
    try:
        ses = drivers.run_inline({"test_a.py": src}, set(case["F"]), pyproject=pyproject_of(case["mode"], case.get("fmtcmd")))
    finally:
        rc.format_code = orig
    if not ses.ok():
        err = ses.exec_error or ses.collect_error or ses.apply_error
        raise Violation(f"session-exception:{type(err).__name__}", f"{type(err).__name__}: {err}\n{src}")
    new = ses.files_after["test_a.py"].decode("utf-8")
    changed = new != src
    classes = ["clean" if clean else "unclean", "changed" if changed else "unchanged"]
    if ses.problems:
        classes.append("problem-reported")
    if case.get("fmtcmd"):
        classes.append("format-command")
        if ses.problems:
            raise Violation("problem-with-working-format-command",
                            f"the configured format-command works, but a problem was reported: {ses.problems}\n{src}")
    if clean or (case.get("fmtcmd") and changed):
        try:
            again = black.format_str(new, mode=mode)
        except Exception as e:
            raise Violation("result-not-formattable", f"{type(e).__name__}: {e}\n--- before\n{src}\n--- after\n{new}")
        if again != new:
            u = captured[-1] if captured else None
            unstable = False
            if u is not None:
                try:
                    b1 = black.format_str(u, mode=mode)
                    unstable = black.format_str(b1, mode=mode) != b1
                except Exception:
                    unstable = True
            if unstable or ses.problems:
                classes.append("formatter-instability")
            else:
                import difflib

                diff = "\n".join(difflib.unified_diff(new.splitlines(), again.splitlines(), lineterm="", n=1))
                raise Violation("clean-file-not-clean-afterwards",
                                f"[tool.black] {case['mode']} F={case['F']}\n{diff[:1500]}\n--- before\n{src}\n--- after\n{new}")
    else:
        a = oracles.masked(src, None)
        b = oracles.masked(oracles.strip_added_imports(src, new), None)
        if a != b:
            raise Violation("unclean-file-reformatted",
                            f"[tool.black] {case['mode']} F={case['F']}\n--- before\n{src}\n--- after\n{new}")
    default = all(v is None for v in case["mode"].values())
    multi = any("\n" in t for t in oracles.site_arg_texts(new))
    return {"nontrivial": clean and changed and (not default or multi), "classes": classes,
            "sample": {"mode": case["mode"], "F": case["F"], "before": src, "after": new}}


ARMS = [HypArm("clean", lambda tier: _case(tier), check, signature=signature,
               budget={"quick": 1000, "thorough": 60000})]


# ------------------------------------------------------- real sessions, pytest started outside the project


def check_from_parent(case):
    """the same property through a real session that is started from the *parent* directory of the
    project (`pytest proj/`), as in a repository that holds several projects"""
    import shutil

    import black

    mode = black_mode(case["mode"])
    src, order = gp.render_program(case["prog"])
    try:
        f1 = black.format_str(src, mode=mode)
        if black.format_str(f1, mode=mode) != f1:
            return {"nontrivial": False, "classes": ["not-cleanable"]}
    except Exception:
        return {"nontrivial": False, "classes": ["not-cleanable"]}
    src = f1
    where = ("parent", "sibling", "workspace")[len(src) % 3]
    if where == "workspace":
        # a workspace: the root pyproject.toml configures black, the package has a pyproject.toml of its own
        # without a [tool.black] section (black skips such a file when it looks for its configuration)
        layout = {"proj/test_a.py": src, "pyproject.toml": pyproject_of(case["mode"]),
                  "proj/pyproject.toml": "[project]\nname = \"pkg\"\nversion = \"1\"\n"}
    else:
        layout = {"proj/test_a.py": src, "proj/pyproject.toml": pyproject_of(case["mode"])}
    d = drivers.make_project(layout, pyproject=None)
    try:
        F = case["F"] or ["create", "fix"]
        # started in the parent directory, or in a sibling directory of the project (`pytest ../proj/test_a.py`)
        if where == "sibling":
            (d / "other").mkdir()
            r = drivers.run_pytest(d / "other", ["--inline-snapshot=" + ",".join(F), "../proj/test_a.py"])
        else:
            r = drivers.run_pytest(d, ["--inline-snapshot=" + ",".join(F), "proj/test_a.py"])
        if "INTERNALERROR" in r.stdout or r.returncode not in (0, 1) or "Traceback (most recent call last)" in r.stderr:
            raise Violation("session-broken", f"pytest started in the {where} directory rc={r.returncode}\n{r.stdout[-1500:]}\n{r.stderr[-1500:]}")
        new = (d / "proj" / "test_a.py").read_bytes().decode("utf-8")
    finally:
        shutil.rmtree(d, ignore_errors=True)
    changed = new != src
    if changed and "Problems" not in r.stdout:
        again = black.format_str(new, mode=mode)
        if again != new and black.format_str(again, mode=mode) == again:
            import difflib

            diff = "\n".join(difflib.unified_diff(new.splitlines(), again.splitlines(), lineterm="", n=1))
            raise Violation("clean-file-not-clean-afterwards:cwd-outside-project",
                            f"pytest started in the {where} directory; [tool.black] {case['mode']} F={F}\n{diff[:1500]}\n"
                            f"--- before\n{src}\n--- after\n{new}")
    default = all(v is None for v in case["mode"].values())
    return {"nontrivial": changed and not default, "classes": ["changed" if changed else "unchanged", where],
            "sample": {"mode": case["mode"], "before": src, "after": new}}


ARMS.append(HypArm("sessions_from_parent", lambda tier: _case(tier), check_from_parent, signature=signature,
                   budget={"quick": 40, "thorough": 1200}, shrink=False))
