"""C12 - every string is written as a literal that reads back identically."""

from __future__ import annotations

import ast
import contextlib
import itertools
import sys
from pathlib import Path

from hypothesis import strategies as st

from .. import drivers, oracles
from ..runner import EnumArm, FuncArm, HypArm, Violation

ID = "C12"
LEVEL = "exploration"
RULE = (
    "l1_enum: every string over the adversarial alphabet {' \" \\ LF CR space a} up to the tier's "
    "length is passed to SourceFile._value_to_code (black applied, file context) and read back with "
    "ast.literal_eval (exhaustive for that sub-space); l1_hyp: Hypothesis text over full Unicode "
    "(incl. lone surrogates, controls) and binary; e2e: the string is placed as whole value / inside "
    "list, tuple, dict key, dict value, dataclass field, `in` member, bound, sub-snapshot key/value and "
    "a real in-process session (create | fix over another literal | update over a differently spelled "
    "literal) under black default, black options, black missing, format-command; the argument of the "
    "rewritten file is evaluated and must equal the string exactly (type included). "
    "non-trivial = the string contains a quote, backslash, CR/LF, a leading/trailing blank, a "
    "non-printable or non-BMP character, or is empty; distinct = distinct case JSON. atheris: coverage-guided "
    "fuzzing (libFuzzer) of the same function-level round trip, 4 (quick) / 16 (thorough) processes with derived "
    "-seed values, empty and small seeded corpora."
)
ASSUMPTIONS = [
    "python's ast.literal_eval / eval is the trusted reading of a literal",
    "black 26.5.1 as installed; format-command arms use `cat` and `python -m black`",
]
EXHAUSTIVE = True

ALPHABET = ["'", '"', "\\", "\n", "\r", " ", "a"]
ENUM_LEN = {"quick": 5, "thorough": 7}

_ctx = {}


def source_file():
    """a SourceFile bound to a real file (so that black formatting of fragments is active)"""
    if "sf" not in _ctx:
        from executing import Source
        from inline_snapshot._source_file import SourceFile

        d = drivers.fresh_dir("c12")
        (d / "pyproject.toml").write_text(drivers.DEFAULT_PYPROJECT)
        p = d / "test_x.py"
        p.write_text("x = 1\n")
        _ctx["sf"] = SourceFile(Source.for_filename(str(p)))
        drivers.reset_globals()
    return _ctx["sf"]


def tricky(s) -> bool:
    if isinstance(s, bytes):
        return s == b"" or any(b in (39, 34, 92, 10, 13, 32) or b > 126 or b < 32 for b in s)
    return (s == "" or any(c in s for c in "'\"\\\n\r") or s != s.strip()
            or not s.isprintable() or any(ord(c) > 0xFFFF for c in s))


def level1(value):
    sf = source_file()
    try:
        code = sf._value_to_code(value)
    except Exception as e:
        raise Violation("l1-exception", f"_value_to_code({value!r}) raised {type(e).__name__}: {e}")
    try:
        back = ast.literal_eval(code)
    except Exception as e:
        raise Violation("l1-unreadable", f"{value!r} -> {code!r}: {type(e).__name__}: {e}")
    if type(back) is not type(value) or back != value:
        raise Violation("l1-roundtrip", f"{value!r} written as {code!r} reads back {back!r}")
    return code


# ----- arm 1: exhaustive enumeration ------------------------------------------------------


def _enum(tier):
    L = ENUM_LEN[tier]
    # chunk by the first two symbols (49 chunks) + one chunk for lengths < 2
    heads = list(itertools.product(range(len(ALPHABET)), repeat=2))

    def chunk(i):
        if i == 0:
            yield {"s": ""}
            for a in ALPHABET:
                yield {"s": a}
            return
        h = heads[i - 1]
        head = ALPHABET[h[0]] + ALPHABET[h[1]]
        for n in range(0, L - 1):
            for tail in itertools.product(ALPHABET, repeat=n):
                yield {"s": head + "".join(tail)}

    return len(heads) + 1, chunk


def check_enum(case):
    s = case["s"]
    code = level1(s)
    return {"nontrivial": tricky(s), "classes": ["triple" if code.startswith(('"""', "'''")) else "single"],
            "sample": {"s": s, "code": code} if len(s) >= 4 else None}


def sig_l1(case):
    return ()


# ----- arm 2: hypothesis, function level --------------------------------------------------


def _strat_l1(tier):
    from ..gen_values import strings

    return st.one_of(
        strings(tier).map(lambda s: {"s": s}),
        st.text(max_size=30).map(lambda s: {"s": s}),
        st.text(alphabet="'\"\\\n\r a\t{}", max_size=24).map(lambda s: {"s": s}),
        st.binary(max_size=16).map(lambda b: {"b": list(b)}),
        st.lists(st.sampled_from([39, 34, 92, 10, 13, 32, 97, 0, 255]), max_size=10).map(lambda b: {"b": b}),
    )


def check_l1(case):
    v = bytes(case["b"]) if "b" in case else case["s"]
    code = level1(v)
    cls = "bytes" if "b" in case else ("unicode" if not v.isascii() else "ascii")
    return {"nontrivial": tricky(v), "classes": [cls], "sample": {"value": repr(v), "code": code}}


# ----- arm 3: end to end ------------------------------------------------------------------

POSITIONS = ["top", "list", "tuple1", "dictkey", "dictval", "dc", "in", "le", "ge", "subkey", "subval",
             "nested"]
FORMATS = ["black", "black", "black-ll20", "black-nonorm", "black-preview", "noblack", "fmt-cat",
           "fmt-black"]

PYPROJECTS = {
    "black": "[tool.black]\nline-length = 88\n",
    "black-ll20": "[tool.black]\nline-length = 20\n",
    "black-nonorm": "[tool.black]\nskip-string-normalization = true\nskip-magic-trailing-comma = true\n",
    "black-preview": "[tool.black]\npreview = true\nline-length = 40\n",
    "noblack": "[tool.black]\nline-length = 88\n",
    "fmt-cat": '[tool.inline-snapshot]\nformat-command = "cat"\n',
    "fmt-black": '[tool.inline-snapshot]\nformat-command = "/venv/bin/python -m black -q --stdin-filename {filename} -"\n',
}


@contextlib.contextmanager
def no_black():
    saved = {k: v for k, v in sys.modules.items() if k == "black" or k.startswith("black.")}
    for k in saved:
        del sys.modules[k]
    sys.modules["black"] = None
    try:
        yield
    finally:
        del sys.modules["black"]
        sys.modules.update(saved)


class DC:
    def __init__(self, v):
        self.v = v

    def __repr__(self):
        return f"Point(x={self.v!r}, y=[{self.v!r}])"


def _lit(v):
    """harness-side spelling of a str/bytes (independent of the code under test)"""
    return ascii(v) if isinstance(v, str) else f"bytes({list(v)!r})"


def _alt_spelling(v):
    """a differently spelled literal with the same value (for the update mode)"""
    if isinstance(v, str):
        return "(" + " + ".join(f"chr({ord(c)})" for c in v) + ")" if v else "str()"
    return f"bytes({list(v)!r})"


def build_module(case):
    v = bytes(case["b"]) if "b" in case else case["s"]
    pos, mode = case["pos"], case["mode"]
    other = (v + v[:1] + (b"x" if isinstance(v, bytes) else "x"))
    lit = _lit(v)
    if case.get("raw_obs") and isinstance(v, str):
        # the observed string is spelled with its own characters: non-ASCII text to the left of the snapshot call
        try:
            repr(v).encode("utf-8")
            lit = repr(v)
        except UnicodeEncodeError:
            pass

    def prev_of(expected_prev_src):
        if mode == "create":
            return ""
        return expected_prev_src

    # observed expression, operation, previous argument text (fix: other value; update: same value
    # spelled differently), expected value after the run
    if pos == "top":
        obs, op, expected = lit, "==", v
        prev = {"fix": _lit(other), "update": _alt_spelling(v)}
    elif pos == "list":
        obs, op, expected = f"[1, {lit}, {lit}]", "==", [1, v, v]
        prev = {"fix": f"[1, {_lit(other)}, 3]", "update": f"[1, {_alt_spelling(v)}, {lit}]"}
    elif pos == "tuple1":
        obs, op, expected = f"({lit},)", "==", (v,)
        prev = {"fix": f"({_lit(other)},)", "update": f"({_alt_spelling(v)},)"}
    elif pos == "dictkey":
        obs, op, expected = f"{{{lit}: 1}}", "==", {v: 1}
        prev = {"fix": f"{{{_lit(other)}: 1}}", "update": f"{{{_alt_spelling(v)}: 1}}"}
    elif pos == "dictval":
        obs, op, expected = f"{{'k': {lit}}}", "==", {"k": v}
        prev = {"fix": f"{{'k': {_lit(other)}}}", "update": f"{{'k': {_alt_spelling(v)}}}"}
    elif pos == "dc":
        obs, op, expected = f"Point(x={lit}, y=[{lit}])", "==", DC(v)
        prev = {"fix": f"Point(x={_lit(other)}, y=[])", "update": f"Point(x={_alt_spelling(v)}, y=[{lit}])"}
    elif pos == "nested":
        obs, op, expected = f"[{{'a': ({lit}, [{lit}])}}]", "==", [{"a": (v, [v])}]
        prev = {"fix": f"[{{'a': ({_lit(other)}, [])}}]", "update": f"[{{'a': ({_alt_spelling(v)}, [{lit}])}}]"}
    elif pos == "in":
        obs, op, expected = lit, "in", ([other, v] if mode == "fix" else [v])
        prev = {"fix": f"[{_lit(other)}]", "update": f"[{_alt_spelling(v)}]"}
    elif pos in ("le", "ge"):
        obs, op, expected = lit, "<=" if pos == "le" else ">=", v
        bigger = other
        smaller = v[:-1] if len(v) else None
        if pos == "le":  # v <= snapshot(p): fix needs p < v
            wrong = smaller
        else:
            wrong = bigger
        prev = {"fix": _lit(wrong) if wrong is not None else None, "update": _alt_spelling(v)}
    elif pos == "subkey":
        obs, op, expected = "1", "subkey", {v: 1}
        prev = {"fix": f"{{{lit}: 2}}", "update": f"{{{_alt_spelling(v)}: 1}}"}
    elif pos == "subval":
        obs, op, expected = lit, "subval", {"k": v}
        prev = {"fix": f"{{'k': {_lit(other)}}}", "update": f"{{'k': {_alt_spelling(v)}}}"}
    else:
        raise ValueError(pos)

    ptxt = "" if mode == "create" else prev[mode]
    if ptxt is None:
        return None
    if op == "==":
        stmt = f"assert {obs} == snapshot({ptxt})"
    elif op == "in":
        stmt = f"assert {obs} in snapshot({ptxt})"
    elif op in ("<=", ">="):
        stmt = f"assert {obs} {op} snapshot({ptxt})"
    elif op == "subkey":
        stmt = f"assert {obs} == snapshot({ptxt})[{lit}]"
    elif op == "subval":
        stmt = f"assert {obs} == snapshot({ptxt})['k']"
    src = ("from inline_snapshot import snapshot\nfrom vf_prelude import *\n\n\n"
           f"def test_a():\n    {stmt}\n")
    return src, expected, v


def _strat_e2e(tier):
    from ..gen_values import strings

    sv = st.one_of(
        strings(tier).map(lambda s: ("s", s)),
        st.text(alphabet="'\"\\\n\r a", max_size=7).map(lambda s: ("s", s)),
        st.text(max_size=40).map(lambda s: ("s", s)),
        st.binary(max_size=8).map(lambda b: ("b", list(b))),
    )
    return st.builds(
        lambda sv, pos, mode, fmt, raw: {sv[0]: sv[1], "pos": pos, "mode": mode, "fmt": fmt, "raw_obs": raw},
        sv, st.sampled_from(POSITIONS), st.sampled_from(["create", "create", "fix", "update"]),
        st.sampled_from(FORMATS), st.sampled_from([False, False, True]),
    )


def check_e2e(case):
    built = build_module(case)
    if built is None:
        return {"nontrivial": False, "classes": ["skipped-no-prev"]}
    src, expected, v = built
    if isinstance(v, str):
        try:
            src.encode("utf-8")
        except UnicodeEncodeError:
            return {"nontrivial": False, "classes": ["skipped-unencodable-module"]}
    flags = {"create": {"create"}, "fix": {"fix"}, "update": {"update"}}[case["mode"]]
    fmt = case["fmt"]
    cm = no_black() if fmt == "noblack" else contextlib.nullcontext()
    with cm:
        ses = drivers.run_inline({"test_a.py": src}, flags, pyproject=PYPROJECTS[fmt])
    if not ses.ok():
        err = ses.exec_error or ses.collect_error or ses.apply_error
        raise Violation("e2e-exception", f"{type(err).__name__}: {err}\n{src}")
    exc = ses.test_results.get("test_a.py::test_a")
    if exc is not None and not isinstance(exc, AssertionError):
        raise Violation("e2e-test-exception", f"{type(exc).__name__}: {exc}\n{src}")
    new = ses.files_after["test_a.py"]
    try:
        text = new.decode("utf-8")
        tree_ok = ast.parse(text)
    except Exception as e:
        raise Violation("e2e-unparsable", f"{type(e).__name__}: {e}\n--- before\n{src}\n--- after\n{new!r}")
    import vf_prelude

    ns = dict(vars(vf_prelude))
    r = oracles.eval_site_args(text, ns)
    if len(r) != 1 or r[0][0] != "value":
        raise Violation("e2e-site", f"site result {r}\n--- before\n{src}\n--- after\n{text}")
    got = r[0][1]
    if isinstance(expected, DC):
        ok = (type(got).__name__ == "Point" and type(got.x) is type(v) and got.x == v
              and isinstance(got.y, list) and len(got.y) == 1 and type(got.y[0]) is type(v) and got.y[0] == v)
    else:
        ok = _same(got, expected)
    if not ok:
        raise Violation("e2e-roundtrip",
                        f"expected {expected!r} got {got!r}\n--- before\n{src}\n--- after\n{text}")
    return {"nontrivial": tricky(v), "classes": [case["pos"], case["mode"], fmt],
            "sample": {"case": {k: (repr(x) if k in ("s",) else x) for k, x in case.items()},
                       "after": oracles.site_arg_texts(text)[0]}}


def _same(a, b):
    if type(a) is not type(b):
        return False
    if isinstance(a, (list, tuple)):
        return len(a) == len(b) and all(_same(x, y) for x, y in zip(a, b))
    if isinstance(a, dict):
        return len(a) == len(b) and all(_same(k1, k2) and _same(a[k1], b[k2]) for k1, k2 in zip(a, b))
    return a == b


def run_atheris(tier, seed, known_sigs, deadline):
    """coverage-guided fuzzing (atheris / libFuzzer) of the literal path with the round-trip oracle inside the
    target; several processes with derived -seed values, empty and small seeded corpora"""
    import json
    import os
    import shutil
    import subprocess
    from concurrent.futures import ThreadPoolExecutor

    from ..runner import Stats, derive_seed

    stats = Stats()
    try:
        import atheris  # noqa: F401
    except Exception:
        stats.classes["atheris-unavailable"] += 1
        return stats.to_dict()
    scale = float(os.environ.get("VERIF_BUDGET_SCALE", "1") or 1)
    nproc, runs = (4, int(1500 * scale)) if tier == "quick" else (16, int(40000 * scale))
    work = drivers.fresh_dir("c12fuzz")
    seeds = [bytes([1]) + b"' a '", bytes([1]) + b'"""' + b"\n'''", bytes([2]) + "é\n".encode(), bytes([0, 0, 255])]

    def one(i):
        corpus = work / f"corpus{i}"
        corpus.mkdir()
        if i % 2:  # every second process starts from a few small valid inputs instead of an empty corpus
            for k, b in enumerate(seeds):
                (corpus / f"seed{k}").write_bytes(b)
        out = work / f"out{i}.json"
        p = subprocess.run([sys.executable, "-m", "vf.cells.c12_fuzz", str(out), str(corpus), f"-runs={runs}",
                            f"-seed={derive_seed(seed, 'c12fuzz', i) % 2**31 or 1}", "-max_len=48"],
                           capture_output=True, text=True, cwd=os.environ.get("VERIF_HOME", "."))
        return i, p, out

    with ThreadPoolExecutor(nproc) as ex:
        results = list(ex.map(one, range(nproc)))
    for i, p, out in results:
        if out.exists():
            rec = json.load(open(out))
            stats.violations.append({"kind": "fuzz-" + rec["kind"], "message": rec["message"], "case": rec["case"],
                                     "detail": None})
            stats.evaluations += rec["count"]["n"]
        elif p.returncode != 0:
            stats.error = f"atheris process {i} failed rc={p.returncode}\n{p.stderr[-1500:]}"
        else:
            stats.evaluations += runs
            stats.classes["fuzz-process-finished"] += 1
    shutil.rmtree(work, ignore_errors=True)
    stats.extra["fuzz_processes"] = nproc
    stats.extra["fuzz_runs_per_process"] = runs
    return stats.to_dict()


ARMS = [
    EnumArm("l1_enum", _enum, check_enum, signature=sig_l1),
    HypArm("l1_hyp", _strat_l1, check_l1, budget={"quick": 4000, "thorough": 200000}),
    HypArm("e2e", _strat_e2e, check_e2e, budget={"quick": 1600, "thorough": 60000}),
    FuncArm("atheris", run_atheris, check=check_l1),
]
