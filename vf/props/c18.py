"""C18 - end-of-session processing completes for every test program."""

from __future__ import annotations

import ast
import shutil

from hypothesis import strategies as st

from .. import drivers, gen_programs as gp, gen_values as gv
from ..runner import HypArm, Violation
from .c05 import flag_sets

ID = "C18"
LEVEL = "exploration"
RULE = (
    "test modules built from 1-8 fragments spread over 1-3 test functions, each fragment optionally wrapped in "
    "try/except so that later ones are reached: ordinary sites with noisy previous values (failing comparisons "
    "abort the test), `raise` statements before/between/after comparisons, nested snapshots whose parent is "
    "replaced (type change), removed or re-aligned (shifted lists), inner snapshots inside dicts and "
    "constructor calls, comparisons that raise (`<=` across types, an __eq__ that raises), unused sites, empty "
    "sub-snapshots, sub-snapshot keys that are only accessed, one snapshot used with two operations, a site "
    "evaluated in a loop with changing nested structure, unusual but valid spellings of the call and of the "
    "hand-written value (parenthesised callee, comments inside the call, trailing commas, `dict(a=1)`, "
    "implicit string concatenation, operators), containers with star-expressions compared once, in a loop or "
    "never; outsourced values; files with unix, dos or mixed line endings; all 16 approved sets. Oracle in process: collecting the "
    "changes, apply_all and fix_all raise nothing, the replacements recorded for a file are pairwise "
    "non-overlapping (checked on the recorder, independently of the internal assert) and the result parses. "
    "Oracle in a real session (started in the project directory, in its parent or in a sibling directory, or reaching the file through a symlinked directory): no INTERNALERROR, exit status in {0, 1}, the inline-snapshot report terminates, "
    "the files parse. non-trivial = a test raised or a comparison failed, and a nested snapshot or a raising "
    "comparison is present."
)
ASSUMPTIONS = [
    "documented usage: `in` on list displays, [key] on dict displays; hand-edited other shapes only for ==",
]

FRAGS = ["site", "site", "raise", "nested_replace", "nested_shift", "nested_dict", "nested_call", "cmp_raises",
         "eq_raises", "unused", "empty_sub", "access_only", "two_ops", "loop_struct", "nested_equal", "spelling",
         "star", "ext"]


@st.composite
def _frag(draw, tier, idx):
    kind = draw(st.sampled_from(FRAGS))
    f = {"kind": kind, "guard": draw(st.booleans()), "n": idx}
    if kind == "site":
        f["site"] = draw(gp.site_with_prev(tier, styles=("assert",), places=("assert", "var", "lambda"),
                                           max_leaves=5))
    elif kind in ("nested_replace", "nested_shift", "nested_dict", "nested_call", "nested_equal"):
        f["inner"] = draw(st.sampled_from(["snapshot(1)", "snapshot()", "snapshot(0+1)", "snapshot([1, 2])",
                                           "snapshot({'a': 1})"]))
        f["obs"] = draw(st.sampled_from(["5", "[1]", "[1, 2]", "[2, 1, 3]", "[[1, 2], 1]", "{'a': 1}", "{'b': 2}",
                                         "'x'", "[]", "[1, 1]", "[0, 1, 2, 1]", "Point(x=1, y=2)", "(1,)"]))
    elif kind == "spelling":
        # valid but unusual spellings of the call and of constructor calls inside the value
        f["expr"] = draw(st.sampled_from([
            "2 == (snapshot)()", "2 == (\n    snapshot\n)()", "3 == ((snapshot))(4)", "2 == snapshot ()",
            "2 == snapshot(  # comment\n)", "2 == snapshot(3,)", "[1, 2] == snapshot(\n    # leading\n    [1]  # trailing\n    # after\n)",
            "Point(x=1, y=5) == snapshot((Point)(x=2))", "Point(x=1) == snapshot(( Point )(x=1, y=7))",
            "Point(x=1, y=2) == snapshot(Point(x=1,))", "Point(x=1, y=2) == snapshot(Point(\n    x=1  # c\n))",
            "{'a': 1, 'b': 2} == snapshot({'a': 1,})", "[1, 2] == snapshot([1,])", "(1, 2) == snapshot((1,))",
            "(1, 2) == snapshot(1,)", "[1] == snapshot(list())", "{'a': 1} == snapshot(dict(a=2))", "{'a': 1} == snapshot(dict())",
            "[] == snapshot([1, 2][:0])", "5 == snapshot(2 if True else 3)", "[1, 2] == snapshot([x for x in [1]])",
            "'ab' == snapshot('a' 'c')", "'ab' == snapshot(('a'\n    'c'))", "-1 == snapshot(- 2)", "1 == snapshot(+1)",
            "1 == snapshot(not 0)", "[1, 2] == snapshot([1] + [3])", "{1, 2} == snapshot({1} | {3})",
            # values that come from a name instead of a display / call
            "Point(x=1, y=2) == snapshot(PT)", "Point(x=1, y=3) == snapshot(PT)", "[Point(x=1, y=2)] == snapshot([PT])",
            "{'k': 1} == snapshot(DBASE)", "[1, 2] == snapshot(BASE)", "[1, 2, 3] == snapshot(BASE)",
            "NT(a=1, b=2) == snapshot(NTV)", "{'p': Point(x=1, y=2)} == snapshot({'p': PT, 'q': PT})",
        ]))
        f["loop"] = draw(st.sampled_from([0, 0, 2]))
        f["unused"] = draw(st.sampled_from([False, False, False, True]))
    elif kind == "star":
        f["expr"] = draw(st.sampled_from([
            "[1, 2, 5] == snapshot([*BASE, 5])", "[1, 2, 6] == snapshot([*BASE, 5])", "(1, 2, 5) == snapshot((*BASE, 0x5))",
            "{'a': 1, 'b': 2, 'k': 5} == snapshot({**DBASE, 'k': 0x5})", "{'a': 1, 'b': 2, 'k': 6} == snapshot({**DBASE, 'k': 5})",
            "Point(x=1, y=5) == snapshot(Point(**{'x': 1}, y=0x5))", "Point(x=1, y=6) == snapshot(Point(*[1], y=5))",
            "[[1, 2, 5], 1] == snapshot([[*BASE, 5], 2])", "{'k': [1, 2]} == snapshot({'k': [*BASE], 'j': 1})",
        ]))
        f["loop"] = draw(st.sampled_from([0, 0, 2]))
        f["unused"] = draw(st.sampled_from([False, False, True]))
    elif kind == "cmp_raises":
        f["expr"] = draw(st.sampled_from(['"a" <= snapshot(5)', 'None >= snapshot(5)', '"a" <= snapshot()',
                                          '[1] <= snapshot("a")', '5 in snapshot([1])', '{} in snapshot([1])',
                                          '1 <= snapshot([1])', '"a" <= snapshot({"k": 5})["k"]']))
    elif kind == "two_ops":
        first, arg = draw(st.sampled_from([("s == 5", "5"), ("5 <= s", "5"), ("5 in s", "[5]"),
                                           ("s['a'] == 1", "{'a': 1}"), ("s == 5", "[5]")]))
        f["first"] = first
        f["second"] = draw(st.sampled_from(["s == 5", "5 <= s", "5 >= s", "5 in s", "s['a']"]))
        # the argument has the shape the first operation documents (or is still empty)
        f["arg"] = draw(st.sampled_from(["", arg]))
    elif kind == "loop_struct":
        f["expr"] = draw(st.sampled_from(["[1, snapshot(i)]", "[snapshot()] * (i + 1)", "{'a': snapshot(i)}",
                                          "[snapshot(1), i]", "[snapshot()]", "[snapshot([1])]", "{'a': snapshot()}"]))
        f["vals"] = draw(st.sampled_from(["[], [7]", "[7], []", "5, [[1]]", "{}, {'a': 1}", "[1], [2], []"]))
    return f


@st.composite
def _case(draw, tier):
    n = draw(st.sampled_from([1, 2, 3, 4, 5, 6, 8]))
    frags = [draw(_frag(tier, i)) for i in range(n)]
    ntests = draw(st.sampled_from([1, 2, 3]))
    assign = [draw(st.integers(0, ntests - 1)) for _ in frags]
    return {"frags": frags, "assign": assign, "F": draw(flag_sets()),
            # line endings of the file: unix, dos, or both kinds in one file
            "eol": draw(st.sampled_from(["lf", "lf", "lf", "crlf", "mixed", "mixed", "cr"])),
            # (real sessions) where pytest is started: in the project, in its parent or in a sibling directory
            "cwd": draw(st.sampled_from(["project", "project", "parent", "sibling", "symlink"]))}


def render_frag(f):
    k, n = f["kind"], f["n"]
    if k == "site":
        s = dict(f["site"])
        prog = {"sites": [s], "tests": [[0]], "header": ["#"]}
        src, _ = gp.render_program(prog)
        body = src.split("def test_0():\n", 1)[1].rstrip("\n").split("\n")
        lines = [l[4:] if l.startswith("    ") else l for l in body if l.strip()]
        helpers = [l for l in src.split("def test_0():\n", 1)[0].split("\n") if l and l != "#"]
        return lines, helpers
    if k == "raise":
        return [f"raise ValueError({n})"], []
    if k == "ext":
        # outsourced data: created, fixed (another type before) or unchanged in a list
        return [[f"assert outsource('data {n}') == snapshot()", f"assert outsource(b'bytes {n}') == snapshot(5)",
                 f"assert [outsource('d{n}'), 1] == snapshot([1])"][n % 3]], []
    if k == "nested_replace":
        return [f"assert {f['obs']} == snapshot([{f['inner']}, 2])"], []
    if k == "nested_shift":
        return [f"assert {f['obs']} == snapshot([1, {f['inner']}, 1, {f['inner']}])"], []
    if k == "nested_dict":
        return [f"assert {f['obs']} == snapshot({{'a': {f['inner']}, 'c': [{f['inner']}]}})"], []
    if k == "nested_call":
        return [f"assert {f['obs']} == snapshot(Point(x={f['inner']}, y=[{f['inner']}, 2]))"], []
    if k == "nested_equal":
        return [f"assert [1, [1, 2]] == snapshot([{f['inner']}, snapshot([1, 2])])"], []
    if k == "cmp_raises":
        return [f"assert {f['expr']}"], []
    if k == "spelling" and "\n" not in f["expr"] and (f.get("unused") or f.get("loop")):
        if f.get("unused"):
            return [f"z{n} = " + f["expr"].split(" == ", 1)[1]], []
        return [f"for _ in range({f['loop']}):", f"    assert {f['expr']}"], []
    if k == "spelling":
        return (f"assert {f['expr']}").split("\n"), []
    if k == "star":
        if f.get("unused"):
            return [f"z{n} = " + f["expr"].split(" == ", 1)[1]], []
        if f.get("loop"):
            return [f"for _ in range({f['loop']}):", f"    assert {f['expr']}"], []
        return [f"assert {f['expr']}"], []
    if k == "eq_raises":
        return ["assert Raiser() == snapshot(1)" if n % 2 else "assert snapshot(1) == Raiser()"], []
    if k == "unused":
        return [f"u{n} = snapshot({['', '5', '[0x1, 0x2]', '{1+1: (2), 3: [0+3]}', 'Point(x=0x1, y=[1_0])'][n % 5]})"], []
    if k == "empty_sub":
        return ["assert 1 == snapshot({})['key']" if n % 2 else "s_ = snapshot({})", ], []
    if k == "access_only":
        return [f"a{n} = snapshot({'' if n % 2 else '{}'})['k']", f"b{n} = snapshot()['k']['j']"], []
    if k == "two_ops":
        return [f"s = snapshot({f['arg']})", f"assert {f['first']}", f"assert {f['second']}"], []
    if k == "loop_struct":
        if n % 2 and "i" not in f["expr"].replace("snapshot", ""):
            # the same outer snapshot compared with structurally different values in a loop
            return [f"for v in ({f.get('vals', '[], [7]')}):", f"    assert v == snapshot({f['expr']})"], []
        return ["for i in range(3):", f"    assert [1, 2] != snapshot({f['expr']}) or True"], []
    raise ValueError(k)


def render(case):
    header = ["from inline_snapshot import snapshot, Is, outsource", "from vf_prelude import *", "", "LOG = []",
              "BASE = [1, 2]", "DBASE = {'a': 1, 'b': 2}", "PT = Point(x=1, y=2)", "NTV = NT(a=1, b=2)", "",
              "class Raiser:", "    def __eq__(self, other):", "        raise RuntimeError('eq')", ""]
    helpers = []
    tests = {}
    for f, t in zip(case["frags"], case["assign"]):
        lines, hs = render_frag(f)
        for h in hs:
            if h not in helpers:
                helpers.append(h)
        if f["guard"]:
            lines = ["try:"] + ["    " + l for l in lines] + ["except Exception:", "    pass"]
        tests.setdefault(t, []).extend(lines)
    out = header + helpers + [""]
    for t in sorted(tests):
        out.append(f"def test_{t}():")
        out += ["    " + l for l in tests[t]]
        out.append("")
    text = "\n".join(out) + "\n"
    eol = case.get("eol", "lf")
    if eol == "crlf":
        text = text.replace("\n", "\r\n")
    elif eol == "cr":
        text = text.replace("\n", "\r")
    elif eol == "mixed":
        lines = text.split("\n")
        text = "".join(l + ("\r\n" if i % 3 == 0 else "\n") for i, l in enumerate(lines[:-1])) + lines[-1]
    return text


def overlap_check(recorder, src):
    from inline_snapshot._rewrite_code import SourcePosition

    for sf in recorder.files():
        reps = sorted(sf.replacements, key=lambda r: (r.range.start.lineno, r.range.start.col_offset,
                                                      r.range.end.lineno, r.range.end.col_offset))
        for a, b in zip(reps, reps[1:]):
            ae = (a.range.end.lineno, a.range.end.col_offset)
            bs = (b.range.start.lineno, b.range.start.col_offset)
            if ae > bs:
                raise Violation("overlapping-replacements", f"{a}\n{b}\n{src}")


def check_inline(case):
    src = render(case)
    try:
        ast.parse(src)
    except SyntaxError as e:
        raise RuntimeError(f"harness: {e}\n{src}")
    F = case["F"]
    import warnings

    with warnings.catch_warnings():
        warnings.simplefilter("ignore")
        ses = drivers.run_inline({"test_a.py": src}, set(F), recorder_hook=lambda rec: overlap_check(rec, src))
    if ses.exec_error is not None:
        raise Violation(f"module-exec:{type(ses.exec_error).__name__}", f"{ses.exec_error}\n{src}")
    if ses.collect_error is not None:
        raise Violation(f"collect-changes:{type(ses.collect_error).__name__}",
                        f"F={F} {type(ses.collect_error).__name__}: {ses.collect_error}\n{ses.collect_tb[-900:]}\n{src}")
    if ses.apply_error is not None:
        if isinstance(ses.apply_error, Violation):
            raise ses.apply_error
        raise Violation(f"apply-changes:{type(ses.apply_error).__name__}",
                        f"F={F} {type(ses.apply_error).__name__}: {ses.apply_error}\n{ses.apply_tb[-900:]}\n{src}")
    after = ses.files_after["test_a.py"].decode("utf-8")
    try:
        ast.parse(after)
    except SyntaxError as e:
        raise Violation("unparsable", f"F={F} {e}\n--- before\n{src}\n--- after\n{after}")
    raised = any(v is not None for v in ses.test_results.values())
    kinds = {f["kind"] for f in case["frags"]}
    nt = raised and bool(kinds & {"nested_replace", "nested_shift", "nested_dict", "nested_call", "cmp_raises",
                                  "eq_raises", "loop_struct", "nested_equal"})
    return {"nontrivial": nt, "classes": sorted(kinds) + (["raised"] if raised else []),
            "sample": {"F": F, "before": src, "after": after}}


def check_pytest(case):
    src = render(case)
    F = case["F"]
    cwd = case.get("cwd", "project")
    if cwd == "project":
        d = drivers.make_project({"test_a.py": src})
    else:
        d = drivers.make_project({"proj/test_a.py": src, "proj/pyproject.toml": drivers.DEFAULT_PYPROJECT}, pyproject=None)
    try:
        args = ["--inline-snapshot=" + ",".join(F)] if F else []
        if cwd == "project":
            r = drivers.run_pytest(d, args)
        elif cwd == "symlink":
            # the test file is reached through a symlinked directory
            (d / "proj").rename(d / "shared")
            (d / "link").symlink_to("shared", target_is_directory=True)
            r = drivers.run_pytest(d, args + ["link/test_a.py"])
            r.files_after = {"test_a.py": (d / "shared" / "test_a.py").read_bytes()}
        elif cwd == "parent":
            r = drivers.run_pytest(d, args + ["proj/test_a.py"])
            r.files_after = {"test_a.py": (d / "proj" / "test_a.py").read_bytes()}
        else:
            (d / "other").mkdir()
            r = drivers.run_pytest(d / "other", args + ["../proj/test_a.py"])
            r.files_after = {"test_a.py": (d / "proj" / "test_a.py").read_bytes()}
        if "INTERNALERROR" in r.stdout or "INTERNALERROR" in r.stderr or r.returncode not in (0, 1):
            raise Violation("internal-error", f"F={F} rc={r.returncode}\n{src}\n{r.stdout[-3000:]}\n{r.stderr[-1500:]}")
        if "Traceback (most recent call last)" in r.stderr:
            raise Violation("traceback-on-stderr", f"F={F} rc={r.returncode}\n{src}\n{r.stderr[-3000:]}")
        after = r.files_after["test_a.py"].decode("utf-8")
        try:
            ast.parse(after)
        except SyntaxError as e:
            raise Violation("unparsable", f"F={F} {e}\n--- before\n{src}\n--- after\n{after}")
        if not r.stdout.rstrip().splitlines()[-1].startswith("="):
            raise Violation("report-does-not-terminate", f"{r.stdout[-1500:]}")
    finally:
        shutil.rmtree(d, ignore_errors=True)
    kinds = {f["kind"] for f in case["frags"]}
    return {"nontrivial": True, "classes": sorted(kinds) + ["cwd=" + cwd], "sample": {"F": F, "before": src}}


ARMS = [
    HypArm("inline", lambda tier: _case(tier), check_inline, budget={"quick": 1500, "thorough": 100000}),
    HypArm("pytest", lambda tier: _case(tier), check_pytest, budget={"quick": 64, "thorough": 2000}, shrink=False),
]
