"""C08 - a second run is a no-op."""

from __future__ import annotations

import ast
import shutil

from hypothesis import strategies as st

from .. import drivers, gen_programs as gp, gen_values as gv, oracles
from ..runner import HypArm, Violation
from .c05 import flag_sets

ID = "C08"
LEVEL = "exploration"
RULE = (
    "history: programs of 1-4 sites (all operations, placements, asserting and recording bodies) with noisy "
    "previous texts or none; history run(F); run(F) [; run(F) in the thorough tier] on the in-process driver, "
    "each run in a fresh directory; F drawn from the 16 subsets with all-four weighted up. Oracle: the files "
    "after run k+1 are byte-identical to the files after run k; for F = all four the second run reports no "
    "create/fix/trim at all, and the rewritten module passes when re-executed with inline-snapshot inactive "
    "(asserting bodies). sessions: the same through real pytest sessions: the second all-four session exits 0, "
    "its report shows no category section / diff panel and no file changes. sessions_bytecode: like an ordinary "
    "user's machine - python's and pytest's bytecode caches survive between the sessions (they are validated by "
    "mtime and size of the source) - with approved changes that keep the size of the file (1 -> 2, 'abc' -> 'abd'); "
    "the second session and a plain run afterwards must be green. non-trivial = the first run "
    "changed the file and some value is not a plain int/short str."
)
ASSUMPTIONS = [
    "deterministic tests (generated bodies are); each run in a fresh directory because linecache/executing cache per file name",
    "an `update` change whose application leaves the file byte-identical is not a pending diff",
]

ALL = ["create", "fix", "trim", "update"]


# displays in which black drops the parentheses of a parenthesised sole element
SOLE = ("list", "vec", "set", "frozenset")


def _paren_complex(d):
    return d[0] == "complex" and float(d[1]) != 0.0


def signature(case):
    """black >= 24 drops the parentheses of a parenthesised expression that is the only element of a list or
    set display (`[(1+0j)]` -> `[1 + 0j]`, `frozenset({(1+0j)})` -> `frozenset({1 + 0j})`), see known finding F36"""
    sigs = set()

    def lists_written(s):
        if s["op"] == "in":
            yield [e for e in s["events"]]
        if s["op"] == "getitem":
            per = {}
            for k, so, x in s["events"]:
                per.setdefault((repr(k), so), []).append(x)
            for (k, so), xs in per.items():
                if so == "in":
                    yield xs
                    for x in xs:
                        yield from (y[1] for y in gv.walk(x) if y[0] in SOLE)
                else:
                    for x in xs:
                        yield from (y[1] for y in gv.walk(x) if y[0] in SOLE)
        else:
            for e in s["events"]:
                yield from (y[1] for y in gv.walk(e) if y[0] in SOLE)
        if s.get("prev_desc") is not None:
            yield from (y[1] for y in gv.walk(s["prev_desc"]) if y[0] in SOLE)

    for s in case["prog"]["sites"]:
        for xs in lists_written(s):
            distinct = []
            for x in xs:
                if x not in distinct:
                    distinct.append(x)
            if len(distinct) == 1 and _paren_complex(distinct[0]):
                sigs.add("complex-sole-list-element")
    return sigs


def _flags():
    return st.one_of(st.just(ALL), st.just(ALL), flag_sets())


def _strategy(tier):
    return st.builds(lambda p, F: {"prog": p, "F": F},
                     gp.program_with_prev(tier, max_sites=4, styles=("assert", "assert", "record")),
                     _flags())


def _run(files, F, label, src0):
    ses = drivers.run_inline(files, set(F))
    if not ses.ok():
        err = ses.exec_error or ses.collect_error or ses.apply_error
        tb = getattr(ses, "apply_tb", "") or getattr(ses, "collect_tb", "")
        raise Violation(f"session-exception:{type(err).__name__}",
                        f"{label} F={F} {type(err).__name__}: {err}\n{tb[-600:]}\n{src0}")
    return ses


def check_history(case, runs=2):
    prog, F = case["prog"], case["F"]
    src, order = gp.render_program(prog)
    files = {"test_a.py": src.encode()}
    ses1 = _run(files, F, "run1", src)
    after1 = ses1.files_after["test_a.py"]
    try:
        ast.parse(after1.decode("utf-8"))
    except Exception as e:
        raise Violation("unparsable", f"F={F} {e}\n--- before\n{src}\n--- after\n{after1!r}")
    prev = after1
    for k in range(2, runs + 1):
        ses = _run({"test_a.py": prev}, F, f"run{k}", src)
        cur = ses.files_after["test_a.py"]
        if cur != prev:
            raise Violation("second-run-changes-file",
                            f"F={F} run {k} changed the file again\n--- original\n{src}\n--- after run {k-1}\n"
                            f"{prev.decode()}\n--- after run {k}\n{cur.decode()}")
        if set(F) == set(ALL):
            left = ses.reported & {"create", "fix", "trim"}
            if left:
                raise Violation("second-run-reports:" + ",".join(sorted(left)),
                                f"after an all-four run, run {k} still reports {sorted(left)}\n--- original\n{src}"
                                f"\n--- after run {k-1}\n{prev.decode()}")
        prev = cur
    if set(F) == set(ALL) and all(s.get("style", "assert") == "assert" for s in prog["sites"]):
        g, results, exec_error = drivers.run_disabled({"test_a.py": prev})
        bad = [(n, e) for n, e in results.items() if e is not None]
        if exec_error is not None or bad:
            raise Violation("disabled-run-fails-after-all-four",
                            f"{exec_error} {bad}\n--- original\n{src}\n--- after\n{prev.decode()}")
    changed = after1 != src.encode()
    vals = []
    for s in prog["sites"]:
        for e in s["events"]:
            vals.append(e[2] if s["op"] == "getitem" else e)
    nt = changed and any(gv.is_nontrivial_value(d) or d[0] not in ("int", "str") for d in vals)
    return {"nontrivial": nt, "classes": ["F=" + ",".join(F), "changed" if changed else "unchanged"],
            "sample": {"F": F, "before": src, "after_run1": after1.decode()}}


def check_history3(case):
    return check_history(case, runs=3)


def check_sessions(case):
    prog = case["prog"]
    src, order = gp.render_program(prog)
    if gp._has_opaque(prog) or len(src) % 3 == 0:
        # imports of the names the tool may have to add in places that do not bind them at module level
        src = src.replace("LOG = []\n", "LOG = []\n\n\ndef helper_with_local_import():\n"
                          "    from inline_snapshot import HasRepr, external\n    return HasRepr, external\n\n\n"
                          "if False:\n    from inline_snapshot import HasRepr\n", 1)
        src = src.replace("from inline_snapshot import snapshot, HasRepr\n", "from inline_snapshot import snapshot\n", 1)
    d = drivers.make_project({"test_a.py": src})
    try:
        r1 = drivers.run_pytest(d, ["--inline-snapshot=create,fix,trim,update"])
        if "INTERNALERROR" in r1.stdout or r1.returncode not in (0, 1):
            raise Violation("pytest-internal", f"rc={r1.returncode}\n{r1.stdout[-1500:]}\n{src}")
        after1 = r1.files_after["test_a.py"]
        r2 = drivers.run_pytest(d, ["--inline-snapshot=create,fix,trim,update"])
        after2 = r2.files_after["test_a.py"]
        if after2 != after1:
            raise Violation("second-session-changes-file",
                            f"--- original\n{src}\n--- after 1\n{after1.decode()}\n--- after 2\n{after2.decode()}")
        if r2.returncode != 0:
            raise Violation("second-session-not-green",
                            f"rc={r2.returncode}\n--- original\n{src}\n--- after 1\n{after1.decode()}\n{r2.stdout[-2000:]}")
        rep = r2.report
        for word in ("Create snapshots", "Fix snapshots", "Trim snapshots", "Update snapshots"):
            if word in rep:
                raise Violation("second-session-reports:" + word.split()[0].lower(),
                                f"--- original\n{src}\n--- after 1\n{after1.decode()}\n--- report 2\n{rep}")
        r3 = drivers.run_pytest(d, ["--inline-snapshot=report"])
        for word in ("Create snapshots", "Fix snapshots", "Trim snapshots", "Update snapshots"):
            if word in r3.report:
                raise Violation("report-after-all-four:" + word.split()[0].lower(),
                                f"--- original\n{src}\n--- after 1\n{after1.decode()}\n--- report\n{r3.report}")
    finally:
        shutil.rmtree(d, ignore_errors=True)
    return {"nontrivial": after1 != src.encode(), "classes": ["session"],
            "sample": {"before": src, "after": after1.decode()}}


# ------------------------------------------------------------------- sessions with bytecode caches

SAME_SIZE = [("1", "2"), ("7", "3"), ("'abc'", "'abd'"), ("[1, 2]", "[2, 1]"), ("{'k': 1}", "{'k': 5}"),
             ("(1, 'x')", "(2, 'y')"), ("'1.2.3'", "'1.2.4'"), ("Point(x=1, y=2)", "Point(x=3, y=4)"), ("10", "99"),
             ("True", "None")]


@st.composite
def _bytecode_case(draw, tier):
    n = draw(st.sampled_from([1, 2, 3]))
    pairs = [draw(st.sampled_from(SAME_SIZE)) for _ in range(n)]
    return {"pairs": [list(p) for p in pairs], "flags": draw(st.sampled_from(["fix", "create,fix,trim,update", "fix,update"])),
            "extra_ok": draw(st.booleans())}


def check_bytecode(case):
    """the approved change keeps the size of the file; python and pytest validate their caches by (mtime, size)"""
    import os
    import time

    lines = ["from inline_snapshot import snapshot", "from vf_prelude import *", "", ""]
    for i, (old, new) in enumerate(case["pairs"]):
        lines += [f"def test_{i}():", f"    assert {new} == snapshot({old})", "", ""]
    if case["extra_ok"]:
        lines += ["def test_ok():", "    assert 5 == snapshot(5)", "", ""]
    src = "\n".join(lines).rstrip("\n") + "\n"
    d = drivers.make_project({"test_a.py": src})
    try:
        # the file was written an hour ago (caches of this very second cannot be told from stale ones otherwise)
        old_time = time.time() - 3600
        os.utime(d / "test_a.py", (old_time, old_time))
        r0 = drivers.run_pytest(d, [], bytecode=True)          # fills the caches with the old constants
        r1 = drivers.run_pytest(d, ["--inline-snapshot=" + case["flags"]], bytecode=True)
        after1 = r1.files_after["test_a.py"]
        if len(after1) != len(src.encode()):
            raise RuntimeError(f"harness: the change is not size-neutral\n{after1.decode()}")
        r2 = drivers.run_pytest(d, ["--inline-snapshot=" + case["flags"]], bytecode=True)
        after2 = r2.files_after["test_a.py"]
        if after2 != after1:
            raise Violation("second-session-changes-file", f"--- after 1\n{after1.decode()}\n--- after 2\n{after2.decode()}")
        if r2.returncode != 0:
            raise Violation("second-session-not-green:bytecode-cache",
                            f"flags={case['flags']} rc={r2.returncode}\n--- original\n{src}\n--- after 1\n{after1.decode()}\n{r2.stdout[-2000:]}")
        r3 = drivers.run_pytest(d, [], bytecode=True)
        if r3.returncode != 0:
            raise Violation("plain-run-after-approval-fails:bytecode-cache",
                            f"flags={case['flags']} rc={r3.returncode}\n--- after 1\n{after1.decode()}\n{r3.stdout[-2000:]}")
    finally:
        shutil.rmtree(d, ignore_errors=True)
    return {"nontrivial": after1 != src.encode(), "classes": ["bytecode", case["flags"]],
            "sample": {"before": src, "after": after1.decode()}}


def _sess_strategy(tier):
    return gp.program_with_prev(tier, max_sites=3, styles=("assert",), max_leaves=6).map(lambda p: {"prog": p})


ARMS = [
    HypArm("history", _strategy, check_history, signature=signature,
           budget={"quick": 1000, "thorough": 10000}),
    HypArm("history3", _strategy, check_history3, signature=signature,
           budget={"quick": 16, "thorough": 60000}),
    HypArm("sessions", _sess_strategy, check_sessions, signature=signature,
           budget={"quick": 32, "thorough": 600}, shrink=False),
    HypArm("sessions_bytecode", _bytecode_case, check_bytecode, budget={"quick": 16, "thorough": 200}, shrink=False,
           min_per_shard=2),
]
