"""Shared runner: arms, sharding, known-findings protocol, evidence, exit codes.

A property module (vf/props/cNN.py) exposes

    ID     = "C01"
    LEVEL  = "exploration" | "fault_enumeration"
    RULE   = "how cases are generated and what makes one non-trivial"
    ASSUMPTIONS = [...]
    ARMS   = [Arm(...), ...]

An arm is one generated-input search with its own oracle.  Three kinds:

  HypArm   strategy(tier) -> Hypothesis strategy of JSON-able cases, check(case) -> info
  EnumArm  enumerate(tier) -> (n_chunks, chunk_fn(i) -> iterable of cases), check(case) -> info
  FuncArm  run(tier, seed, pool_size) -> dict   (custom, e.g. cross-process differentials)

check(case) returns {"nontrivial": bool, "classes": [labels], "sample": any-json} and raises
Violation(kind, message) when the property is broken.  Anything else that escapes is a
harness error (exit 2) and never a VIOLATION.
"""

from __future__ import annotations

import hashlib
import importlib
import json
import multiprocessing as mp
import os
import sys
import time
import traceback
from collections import Counter
from pathlib import Path

HOME = Path(os.environ.get("VERIF_HOME", Path(__file__).resolve().parent.parent))
REPO = Path(os.environ.get("VERIF_REPO", "/repo"))
NPROC = int(os.environ.get("VERIF_NPROC", "16"))


class Violation(Exception):
    def __init__(self, kind, message="", detail=None):
        super().__init__(f"{kind}: {message}")
        self.kind = kind
        self.message = message
        self.detail = detail


class _StopShrink(BaseException):
    pass


class Arm:
    kind = "?"

    def __init__(self, name, *, check=None, signature=None, budget=None, shards=None,
                 shrink=True, doc="", min_per_shard=8):
        self.name = name
        self.check = check
        self.signature = signature  # case -> iterable of known-class names (input based)
        self.budget = budget or {"quick": 200, "thorough": 2000}
        self.shards = shards or {"quick": max(1, NPROC // 2), "thorough": NPROC * 4}
        self.shrink = shrink
        self.doc = doc
        self.min_per_shard = min_per_shard


class HypArm(Arm):
    kind = "hyp"

    def __init__(self, name, strategy, check, **kw):
        super().__init__(name, check=check, **kw)
        self.strategy = strategy


class EnumArm(Arm):
    kind = "enum"

    def __init__(self, name, enumerate, check, **kw):
        super().__init__(name, check=check, **kw)
        self.enumerate = enumerate


class FuncArm(Arm):
    kind = "func"

    def __init__(self, name, run, **kw):
        super().__init__(name, **kw)
        self.run = run


def case_hash(case) -> str:
    data = json.dumps(case, sort_keys=True, default=repr).encode()
    return hashlib.blake2b(data, digest_size=8).hexdigest()


def derive_seed(*parts) -> int:
    h = hashlib.sha256(":".join(map(str, parts)).encode()).hexdigest()
    return int(h[:8], 16)


class Stats:
    MAX_SAMPLES = 4

    def __init__(self):
        self.evaluations = 0
        self.nontrivial = set()
        self.classes = Counter()
        self.excluded = Counter()
        self.samples = []
        self.violations = []  # dicts kind, message, case
        self.error = None
        self.extra = Counter()

    def record(self, case, info):
        info = info or {}
        if info.get("nontrivial"):
            self.nontrivial.add(case_hash(case))
        for c in info.get("classes", ()):
            self.classes[c] += 1
        for k, v in (info.get("extra") or {}).items():
            self.extra[k] += v
        if "sample" in info and info["sample"] is not None:
            if len(self.samples) < self.MAX_SAMPLES and (
                info.get("nontrivial") or self.evaluations > 50
            ) and info["sample"] not in self.samples:
                self.samples.append(info["sample"])

    def to_dict(self):
        return {
            "evaluations": self.evaluations,
            "nontrivial": sorted(self.nontrivial),
            "classes": dict(self.classes),
            "excluded": dict(self.excluded),
            "samples": self.samples,
            "violations": self.violations,
            "error": self.error,
            "extra": dict(self.extra),
        }


def load_prop(prop_id):
    return importlib.import_module(f"vf.props.{prop_id.lower()}")


def get_arm(mod, name):
    for a in mod.ARMS:
        if a.name == name:
            return a
    raise KeyError(name)


def assert_repo():
    import inline_snapshot

    p = Path(inline_snapshot.__file__).resolve()
    if not str(p).startswith(str((REPO / "src").resolve())):
        raise RuntimeError(f"inline_snapshot imported from {p}, expected under {REPO}/src")


def _check_one(arm, case, stats, known_sigs):
    """returns True if executed (not excluded)."""
    if arm.signature is not None:
        sigs = set(arm.signature(case) or ())
        hit = sigs & known_sigs
        if hit:
            for s in hit:
                stats.excluded[s] += 1
            return False
    info = arm.check(case)
    stats.record(case, info)
    return True


def _hyp_worker(args):
    prop_id, arm_name, tier, shard_seed, budget, known_sigs, deadline = args
    stats = Stats()
    try:
        assert_repo()
        mod = load_prop(prop_id)
        arm = get_arm(mod, arm_name)
        import hypothesis
        from hypothesis import HealthCheck, Phase, given, settings

        strat = arm.strategy(tier)
        last = {}

        shrink_cap = float(os.environ.get("VERIF_SHRINK_CAP_S", "25" if tier == "quick" else "120"))

        def body(case):
            if time.time() > deadline:
                stats.extra["skipped_after_deadline"] += 1
                return
            if last and time.time() - last["t0"] > shrink_cap:
                # shrinking budget used up: stop with the best (most recent failing) example so far
                raise _StopShrink()
            stats.evaluations += 1
            try:
                _check_one(arm, case, stats, known_sigs)
            except Violation as v:
                last.setdefault("t0", time.time())
                last["case"] = case
                last["v"] = v
                raise

        phases = [Phase.generate, Phase.shrink] if arm.shrink else [Phase.generate]
        test = hypothesis.seed(shard_seed)(
            settings(
                max_examples=budget,
                database=None,
                deadline=None,
                derandomize=False,
                report_multiple_bugs=False,
                phases=phases,
                suppress_health_check=list(HealthCheck),
                print_blob=False,
            )(given(strat)(body))
        )
        try:
            test()
        except (Violation, _StopShrink):
            v = last["v"]
            stats.violations.append(
                {"kind": v.kind, "message": v.message, "case": last["case"], "detail": v.detail}
            )
        except BaseException as e:  # flaky, harness errors
            if last and type(e).__name__ in ("FlakyFailure", "Flaky", "FlakyReplay"):
                v = last["v"]
                stats.violations.append(
                    {"kind": v.kind, "message": "(flaky) " + v.message, "case": last["case"],
                     "detail": v.detail}
                )
            else:
                stats.error = traceback.format_exc()
    except BaseException:
        stats.error = traceback.format_exc()
    return stats.to_dict()


def _enum_worker(args):
    prop_id, arm_name, tier, chunk, known_sigs, deadline = args
    stats = Stats()
    try:
        assert_repo()
        mod = load_prop(prop_id)
        arm = get_arm(mod, arm_name)
        _n, chunk_fn = arm.enumerate(tier)
        for case in chunk_fn(chunk):
            if time.time() > deadline:
                stats.extra["skipped_after_deadline"] += 1
                continue
            stats.evaluations += 1
            try:
                _check_one(arm, case, stats, known_sigs)
            except Violation as v:
                if len(stats.violations) < 20:
                    stats.violations.append(
                        {"kind": v.kind, "message": v.message, "case": case, "detail": v.detail}
                    )
                stats.extra["violating_cases"] += 1
    except BaseException:
        stats.error = traceback.format_exc()
    return stats.to_dict()


def merge(results):
    total = Stats()
    errors = []
    for r in results:
        total.evaluations += r["evaluations"]
        total.nontrivial.update(r["nontrivial"])
        total.classes.update(r["classes"])
        total.excluded.update(r["excluded"])
        total.extra.update(r.get("extra", {}))
        for s in r["samples"][:2]:
            if len(total.samples) < 8 and s not in total.samples:
                total.samples.append(s)
        total.violations.extend(r["violations"])
        if r["error"]:
            errors.append(r["error"])
    return total, errors


def load_known():
    p = HOME / "known_findings.json"
    if not p.exists():
        return []
    return json.loads(p.read_text())["findings"]


def budget_scale():
    try:
        return float(os.environ.get("VERIF_BUDGET_SCALE", "1"))
    except ValueError:
        return 1.0


def run_arm(mod, arm, tier, seed, known_sigs, deadline):
    """returns (Stats, errors)"""
    ctx = mp.get_context("fork")
    if arm.kind == "hyp":
        budget = max(1, int(arm.budget[tier] * budget_scale()))
        # the first example hypothesis generates in every shard is the minimal one: keep shards large
        # enough (>= 8 examples) that this does not dominate small budgets
        shards = max(1, min(arm.shards[tier], budget // arm.min_per_shard))
        per = max(1, budget // shards)
        jobs = [
            (mod.ID, arm.name, tier, derive_seed(seed, mod.ID, arm.name, i), per, known_sigs, deadline)
            for i in range(shards)
        ]
        with ctx.Pool(min(NPROC, shards), maxtasksperchild=1) as pool:
            results = pool.map(_hyp_worker, jobs, chunksize=1)
        return merge(results)
    if arm.kind == "enum":
        n, _ = arm.enumerate(tier)
        jobs = [(mod.ID, arm.name, tier, i, known_sigs, deadline) for i in range(n)]
        with ctx.Pool(min(NPROC, max(1, n)), maxtasksperchild=4) as pool:
            results = pool.map(_enum_worker, jobs, chunksize=1)
        total, errors = merge(results)
        total.extra["exhaustive_chunks"] = n
        return total, errors
    if arm.kind == "func":
        try:
            r = arm.run(tier, seed, known_sigs, deadline)
        except BaseException:
            s = Stats()
            s.error = traceback.format_exc()
            r = s.to_dict()
        return merge([r])
    raise ValueError(arm.kind)


def write_violation(prop_id, arm_name, v):
    d = HOME / "replays" / prop_id
    d.mkdir(parents=True, exist_ok=True)
    rec = {"property": prop_id, "arm": arm_name, "kind": v["kind"], "message": v["message"],
           "case": v["case"]}
    h = case_hash([arm_name, v["case"]])
    p = d / f"viol-{h}.json"
    p.write_text(json.dumps(rec, indent=1, sort_keys=True, default=repr))
    return p


def replay_case(mod, arm_name, case):
    """returns None when the property held, else the Violation."""
    arm = get_arm(mod, arm_name)
    try:
        arm.check(case)
    except Violation as v:
        return v
    return None


def run_property(prop_id, tier, seed, only_arms=None):
    t0 = time.time()
    assert_repo()
    mod = load_prop(prop_id)
    known = [f for f in load_known() if prop_id in f["properties"]]
    exit_code = 0
    n_viol = 0
    known_sigs = set()
    known_lines = []
    harness_errors = []

    # 1. known findings / fixed regressions
    for f in known:
        arm_name = f.get("arm")
        status = f["status"]
        v = None
        if arm_name is not None and f.get("case") is not None:
            try:
                v = replay_case(mod, arm_name, f["case"])
            except KeyError:
                v = None
                arm_name = None
            except BaseException:
                harness_errors.append(traceback.format_exc())
                continue
        if status == "known":
            for s in f.get("signatures", []):
                known_sigs.add(s)
            if arm_name is None:
                # finding listed for this property but reproduced by another property's arm
                continue
            if v is not None:
                line = f"KNOWN-FINDING: property={prop_id} {f['id']} {f['what']}"
                print(line, flush=True)
                known_lines.append(line)
            else:
                print(f"NOTE: known finding {f['id']} no longer reproduces on this tree "
                      f"(property={prop_id})", flush=True)
        elif status == "fixed":
            if v is not None:
                p = write_violation(prop_id, arm_name, {"kind": v.kind, "message": v.message,
                                                        "case": f["case"]})
                print(f"VIOLATION property={prop_id} replay={p}", flush=True)
                print(f"  regression of fixed finding {f['id']}: {v.kind}: {v.message[:300]}")
                n_viol += 1
                exit_code = 1

    # 2. committed regression inputs
    n_reg = 0
    rdir = HOME / "replays" / prop_id
    if rdir.is_dir():
        for p in sorted(rdir.glob("reg-*.json")):
            rec = json.loads(p.read_text())
            try:
                v = replay_case(mod, rec["arm"], rec["case"])
            except BaseException:
                harness_errors.append(f"replay {p}\n" + traceback.format_exc())
                continue
            n_reg += 1
            if v is not None:
                print(f"VIOLATION property={prop_id} replay={p}", flush=True)
                print(f"  {v.kind}: {v.message[:300]}")
                n_viol += 1
                exit_code = 1

    # 3. arms
    cap = float(os.environ.get("VERIF_WALL_CAP_S", "900" if tier == "quick" else "7200"))
    deadline = t0 + cap
    per_arm = {}
    total = Stats()
    for arm in mod.ARMS:
        if only_arms and arm.name not in only_arms:
            continue
        ta = time.time()
        stats, errors = run_arm(mod, arm, tier, seed, frozenset(known_sigs), deadline)
        harness_errors.extend(errors)
        d = stats.to_dict()
        per_arm[arm.name] = {
            "kind": arm.kind,
            "evaluations": d["evaluations"],
            "distinct_nontrivial": len(d["nontrivial"]),
            "classes": d["classes"],
            "excluded_known": d["excluded"],
            "extra": d["extra"],
            "wall_s": round(time.time() - ta, 2),
            "violations": len(d["violations"]),
        }
        total.evaluations += stats.evaluations
        total.nontrivial.update(f"{arm.name}:{h}" for h in stats.nontrivial)
        total.classes.update({f"{arm.name}/{k}": v for k, v in stats.classes.items()})
        total.excluded.update(stats.excluded)
        for s in stats.samples[:3]:
            total.samples.append({"arm": arm.name, "case": s})
        seen_kinds = set()
        for v in stats.violations:
            if v["kind"] in seen_kinds:
                continue
            seen_kinds.add(v["kind"])
            p = write_violation(prop_id, arm.name, v)
            print(f"VIOLATION property={prop_id} replay={p}", flush=True)
            print(f"  arm={arm.name} {v['kind']}: {str(v['message'])[:600]}")
            n_viol += 1
            exit_code = 1

    inconclusive = total.extra.get("skipped_after_deadline", 0) > 0 or time.time() > deadline
    wall = time.time() - t0
    evidence = {
        "property_id": prop_id,
        "tier": tier,
        "seed": int(seed),
        "level": mod.LEVEL,
        "coverage": {
            "evaluations": total.evaluations,
            "distinct_nontrivial": len(total.nontrivial),
            "rule": mod.RULE,
            "samples": total.samples[:10],
            "classes": dict(total.classes),
            "excluded_known": dict(total.excluded),
            "arms": per_arm,
            "regression_replays": n_reg,
            "known_findings_reported": known_lines,
            "exhaustive": bool(getattr(mod, "EXHAUSTIVE", False)),
            "inconclusive_wall_cap_hit": bool(inconclusive),
        },
        "assumptions": list(getattr(mod, "ASSUMPTIONS", [])),
        "wall_s": round(wall, 2),
        "violations": n_viol,
    }
    for k, v in (getattr(mod, "EXTRA_COVERAGE", {}) or {}).items():
        evidence["coverage"][k] = v
    edir = HOME / "evidence"
    edir.mkdir(exist_ok=True)
    (edir / f"{prop_id}.json").write_text(json.dumps(evidence, indent=1, default=repr))

    if harness_errors:
        print(f"HARNESS-ERROR property={prop_id} ({len(harness_errors)} errors); first:", flush=True)
        print(harness_errors[0])
        if exit_code == 0:
            exit_code = 2
    print(
        f"{prop_id} tier={tier} seed={seed} evaluations={total.evaluations} "
        f"distinct_nontrivial={len(total.nontrivial)} violations={n_viol} "
        f"excluded_known={sum(total.excluded.values())} wall={wall:.1f}s exit={exit_code}",
        flush=True,
    )
    return exit_code
