"""Noisy renderer and edit scripts.

`noisy(desc)` is a Hypothesis strategy producing source text for a value description as a
user or an older tool version might have left it: odd spacing, line breaks, trailing commas,
comments inside multi-line arguments, both quote kinds, implicit string concatenation,
redundant parentheses, arithmetic spellings, dict(a=1) calls, constructor calls with
defaults shown or omitted.  Every rendering is validated by the harness
(eval(text) == build(desc), same type) before use; invalid ones fall back to `natural`.

`mutate(desc)` derives a *previous* value from a new one by a generated edit script.
"""

from __future__ import annotations

import vf_prelude
from hypothesis import strategies as st

from . import gen_values as gv

_NS = dict(vars(vf_prelude))


def validate(text, d):
    try:
        v = eval(text, dict(_NS))
        b = gv.build(d)
        return type(v) is type(b) and v == b and b == v
    except Exception:
        return False


class _R:
    """renderer driven by a `draw` function"""

    def __init__(self, draw, level, top_display=False):
        self.draw = draw
        self.level = level  # 0 = canonical-ish, 1 = light noise, 2 = heavy
        self.top_display = top_display  # the outermost dict must be a display ({...})

    def flip(self, p=0.3):
        if self.level == 0:
            return False
        return self.draw(st.integers(0, 99)) < p * 100 * (1 if self.level == 1 else 1.6)

    def sep(self):
        if self.level == 0:
            return ", "
        return self.draw(st.sampled_from([", ", ", ", ",", ",  ", " , "]))

    def seq(self, open_, items, close, force_trailing=False, indent=1):
        if not items:
            return open_ + (" " if self.flip(0.1) else "") + close
        trailing = force_trailing or self.flip(0.25)
        if self.level == 2 and self.flip(0.25):
            # multi-line, optionally with comments
            pad = "    " * (indent + 1)
            lines = []
            for i, it in enumerate(items):
                last = i == len(items) - 1
                comma = "," if (not last or trailing or force_trailing or self.flip(0.5)) else ""
                cm = "  # c" + str(i) if self.flip(0.3) else ""
                lines.append(pad + it + comma + cm)
            return open_ + "\n" + "\n".join(lines) + "\n" + "    " * indent + close
        out = ""
        for i, it in enumerate(items):
            if i:
                out += self.sep()
            out += it
        if trailing or force_trailing:
            out += ","
        sp = " " if self.flip(0.1) else ""
        return open_ + sp + out + sp + close

    def string(self, s):
        r = ascii(s)
        if self.level == 0:
            return r
        choice = self.draw(st.integers(0, 5))
        if choice == 0 and r[0] == "'" and '"' not in r and "\\" not in r:
            return '"' + r[1:-1] + '"'
        if choice == 1 and len(s) >= 2:
            k = self.draw(st.integers(1, len(s) - 1))
            return ascii(s[:k]) + " " + ascii(s[k:])
        if choice == 2 and s and all(c.isalnum() or c == " " for c in s) and s.isascii():
            return '"""' + s + '"""'
        if choice == 3 and s and s.isascii() and all(c.isalnum() for c in s):
            return "r'" + s + "'"
        return r

    def integer(self, n):
        if self.level == 0 or isinstance(n, bool):
            return repr(n)
        choice = self.draw(st.integers(0, 7))
        if choice == 0:
            return f"{n - 1}+1" if n >= 1 else repr(n)
        if choice == 1:
            return f"({n})"
        if choice == 2 and n >= 0:
            return hex(n)
        if choice == 3 and n >= 1000:
            return f"{n:_}"
        return repr(n)

    def render(self, d, indent=1):
        """text of d; at level 2 nested parts are sometimes hand-written *expressions* with that value"""
        t = self._render(d, indent)
        k = d[0]
        if self.level == 2 and indent >= 2 and "\n" not in t and self.flip(0.04):
            forms = ["(lambda: %s)()", "[%s][0]", "(%s if True else None)"]
            if k == "int" and not isinstance(d[1], bool):
                forms += ["int(str(%s))", "abs(%s)" if d[1] >= 0 else "-abs(%s)", "min(%s, 10**30)"]
            elif k == "str":
                forms += ["''.join([%s])", "str(%s)", "(%s + '')", "%s[:]"]
            elif indent >= 3 and k == "list":
                forms += ["list(%s)", "[x for x in %s]", "(%s + [])", "list(tuple(%s))"]
            elif indent >= 3 and k == "tuple":
                forms += ["tuple(%s)", "tuple(x for x in %s)"]
            elif indent >= 3 and k == "dict":
                forms += ["dict(%s)", "{k: v for k, v in %s.items()}"]
            elif indent >= 3 and k == "set":
                forms += ["set(%s)", "{x for x in %s}"]
            elif k not in ("int", "str", "none", "bool", "float", "bytes"):
                forms = []
            if forms:
                return self.draw(st.sampled_from(forms)) % t
        return t

    def _render(self, d, indent=1):
        k = d[0]
        if k == "int":
            return self.integer(d[1])
        if k == "str":
            return self.string(d[1])
        if k == "bytes":
            r = repr(bytes(d[1]))
            if self.level and self.flip(0.3) and '"' not in r and "\\" not in r:
                return 'b"' + r[2:-1] + '"'
            return r
        if k == "list":
            return self.seq("[", [self.render(x, indent + 1) for x in d[1]], "]", indent=indent)
        if k == "tuple":
            items = [self.render(x, indent + 1) for x in d[1]]
            return self.seq("(", items, ")", force_trailing=len(items) == 1, indent=indent)
        if k == "set":
            if not d[1]:
                return "set()"
            return self.seq("{", [self.render(x, indent + 1) for x in d[1]], "}", indent=indent)
        if k == "frozenset":
            if not d[1]:
                return "frozenset()"
            return "frozenset(" + self.seq("{", [self.render(x, indent + 1) for x in d[1]], "}", indent=indent) + ")"
        if k == "dict":
            if (self.level and d[1] and not (self.top_display and indent == 1)
                    and self.flip(0.15)
                    and all(a[0] == "str" and a[1].isidentifier() and a[1].isascii()
                            and not _iskw(a[1]) for a, _b in d[1])
                    and len({a[1] for a, _b in d[1]}) == len(d[1])):
                return self.seq("dict(", [f"{a[1]}={self.render(b, indent + 1)}" for a, b in d[1]], ")",
                                indent=indent)
            colon = ": " if not self.flip(0.2) else self.draw(st.sampled_from([":", " : ", ":  "]))
            return self.seq("{", [self.render(a, indent + 1) + colon + self.render(b, indent + 1)
                                  for a, b in d[1]], "}", indent=indent)
        if k == "call":
            name, fields = d[1], d[2]
            given = dict((n, v) for n, v in fields)
            order = gv.CALL_FIELDS[name]
            items = []
            positional = self.level and self.flip(0.5 if name == "HFirst" else 0.12) and name not in ("PModel", "PAlias", "PHidden", "PExtra")
            # positional prefix only for leading fields present
            if positional:
                npos = 0
                for f in order:
                    if f in given:
                        npos += 1
                    else:
                        break
                npos = self.draw(st.integers(0, npos))
            else:
                npos = 0
            for i, f in enumerate(order):
                if f not in given:
                    continue
                txt = self.render(given[f], indent + 1)
                if i < npos:
                    items.append(txt)
                else:
                    eq = "=" if not self.flip(0.15) else " = "
                    items.append(f"{f}{eq}{txt}")
            # optionally spell out defaults explicitly, anywhere among the keyword arguments
            if self.level and self.flip(0.25):
                for f, txt in ALL_DEFAULTS[name]:
                    if f not in given and self.flip(0.6):
                        items.insert(self.draw(st.integers(npos, len(items))), f"{f}={txt}")
            # keyword arguments in another order than the fields
            if self.level and len(items) - npos >= 2 and self.flip(0.2):
                kws = self.draw(st.permutations(items[npos:]))
                items = items[:npos] + list(kws)
            callee = f"({name})" if self.level and self.flip(0.04) else name
            return self.seq(callee + "(", items, ")", indent=indent)
        if k == "vec":
            return self.seq("Vec(", [self.render(x, indent + 1) for x in d[1]], ")", indent=indent)
        if k == "ddict":
            inner = self.render(["dict", d[2]], indent + 1)
            return f"defaultdict({d[1]}, {inner})"
        return gv.natural(d)


ALL_DEFAULTS = {
    "Point": [("y", "0")], "FPoint": [("y", "0")],
    "Box": [("items", "[]"), ("name", "'box'"), ("meta", "{}")],
    "APoint": [("b", "[]"), ("c", "5")], "AFrozen": [("v", "None")],
    "PModel": [("tags", "[]"), ("opt", "None")],
    "NT": [("b", "0")], "TNT": [("q", "'q'")], "Outer.Cfg": [("n", "0")],
    "APriv": [("y", "2")], "PAlias": [("other", "3")],
    "Hidden": [("b", "3")], "AHidden": [("b", "3")], "PHidden": [("b", "3")], "PExtra": [],
    "SubPoint": [("y", "0")], "Point3": [("y", "0"), ("z", "0")], "HFirst": [("name", "'n'"), ("n", "0")],
}


def _iskw(s):
    import keyword

    return keyword.iskeyword(s)


@st.composite
def noisy(draw, d, level=None, top_display=False):
    if level is None:
        level = draw(st.sampled_from([0, 1, 1, 2, 2]))
    text = _R(draw, level, top_display).render(d)
    if validate(text, d):
        return text
    text = gv.natural(d)
    if validate(text, d):
        return text
    return gv.render(d)


# ------------------------------------------------------------------------------ edit scripts

SIBLING_CLASS = {
    # class -> [(another class of the same kind - or a sub / super class -, field renaming)]
    "Point": [("FPoint", {}), ("SubPoint", {}), ("Point3", {}), ("SubPoint", {})],
    "FPoint": [("Point", {})], "SubPoint": [("Point", {}), ("Point3", {})], "Point3": [("Point", {}), ("SubPoint", {})],
    "NT": [("TNT", {"a": "p", "b": "q"})], "TNT": [("NT", {"p": "a", "q": "b"})],
    "APoint": [("AFrozen", {"a": "k", "b": "v"})], "AFrozen": [("APoint", {"k": "a", "v": "b"})],
    "Hidden": [("AHidden", {}), ("PHidden", {})], "AHidden": [("Hidden", {})], "PHidden": [("Hidden", {})],
}


@st.composite
def mutate(draw, d, tier="quick", depth=0):
    """a previous value derived from `d` by edits (may return `d` itself unchanged)"""
    k = d[0]
    leafs = gv.hashable_leaves(tier)
    choice = draw(st.integers(0, 9))
    if k in ("list", "tuple", "vec"):
        xs = list(d[1])
        if choice <= 5 and depth < 3:
            n_edits = draw(st.integers(1, 3))
            for _ in range(n_edits):
                e = draw(st.integers(0, 5))
                if e == 0 and xs:
                    xs.pop(draw(st.integers(0, len(xs) - 1)))
                elif e == 1:
                    xs.insert(draw(st.integers(0, len(xs))), draw(leafs))
                elif e == 2 and xs:
                    i = draw(st.integers(0, len(xs) - 1))
                    xs[i] = draw(mutate(xs[i], tier, depth + 1))
                elif e == 3 and len(xs) >= 2:
                    i = draw(st.integers(0, len(xs) - 2))
                    xs[i], xs[i + 1] = xs[i + 1], xs[i]
                elif e == 4 and xs:
                    i = draw(st.integers(0, len(xs) - 1))
                    xs.insert(i, xs[i])
                elif e == 5 and xs:
                    i = draw(st.integers(0, len(xs) - 1))
                    xs[i] = draw(leafs)
            if xs and draw(st.integers(0, 5)) == 0:
                # repetition: the common prefix and suffix of old and new overlap ([a, b] vs [a, b, a, b])
                j = draw(st.sampled_from([len(xs), len(xs), draw(st.integers(1, len(xs)))]))
                xs = xs + xs[:j] if draw(st.sampled_from([True, True, False])) else xs[:j]
            return [k, xs]
        if choice == 6:
            return ["tuple" if k == "list" else "list", xs]
        if choice == 7:
            return ["list", [d]]
        if choice == 8 and xs:
            return xs[0]
        return d
    if k == "dict":
        kv = [list(p) for p in d[1]]
        if choice <= 6 and depth < 3:
            for _ in range(draw(st.integers(1, 3))):
                e = draw(st.integers(0, 4))
                if e == 0 and kv:
                    kv.pop(draw(st.integers(0, len(kv) - 1)))
                elif e == 1:
                    kv.insert(draw(st.integers(0, len(kv))), [draw(leafs), draw(leafs)])
                elif e == 2 and kv:
                    i = draw(st.integers(0, len(kv) - 1))
                    kv[i] = [kv[i][0], draw(mutate(kv[i][1], tier, depth + 1))]
                elif e == 3 and len(kv) >= 2:
                    i = draw(st.integers(0, len(kv) - 2))
                    kv[i], kv[i + 1] = kv[i + 1], kv[i]
                elif e == 4 and kv:
                    i = draw(st.integers(0, len(kv) - 1))
                    kv[i] = [draw(leafs), kv[i][1]]
            return ["dict", kv]
        if choice == 7:
            return ["list", [a for a, _b in kv]]
        if choice >= 8 and len(kv) >= 2:
            # the same entries in another order (== ignores the order), sometimes with one changed value
            kv = [list(p) for p in draw(st.permutations(kv))]
            if choice == 9:
                i = draw(st.integers(0, len(kv) - 1))
                kv[i] = [kv[i][0], draw(leafs)]
            return ["dict", kv]
        return d
    if k == "call":
        fields = [list(f) for f in d[2]]
        if choice <= 6 and fields and depth < 3:
            name = d[1]
            for _ in range(draw(st.integers(1, 2))):
                e = draw(st.integers(0, 2))
                i = draw(st.integers(0, len(fields) - 1))
                if e == 0:
                    fields[i] = [fields[i][0], draw(mutate(fields[i][1], tier, depth + 1))]
                elif e == 1 and fields[i][0] not in gv.REQUIRED[name]:
                    fields.pop(i)
                    if not fields:
                        break
                elif e == 2:
                    missing = [f for f in gv.CALL_FIELDS[name] if f not in [x[0] for x in fields]]
                    if missing:
                        fields.append([missing[0], draw(leafs)])
                        order = gv.CALL_FIELDS[name]
                        fields.sort(key=lambda f: order.index(f[0]))
            return ["call", name, fields]
        if choice == 7:
            return draw(leafs)
        if choice == 8 and d[1] in SIBLING_CLASS:
            # a value of another class of the same kind (dataclass / attrs / namedtuple) with the same content
            other, rename = draw(st.sampled_from(SIBLING_CLASS[d[1]]))
            return ["call", other, [[rename.get(f, f), v] for f, v in d[2] if rename.get(f, f) in gv.CALL_FIELDS[other]]]
        return d
    if k == "ddict":
        # edit the content like the one of a dict, keep the factory
        inner = draw(mutate(["dict", d[2]], tier, depth))
        return ["ddict", d[1], inner[1]] if inner[0] == "dict" else inner
    if k in ("set", "frozenset"):
        xs = list(d[1])
        if choice <= 4:
            if xs and draw(st.booleans()):
                xs.pop(draw(st.integers(0, len(xs) - 1)))
            else:
                xs.append(draw(leafs))
            return [k, xs]
        return d
    # leaves
    if choice <= 5:
        if k == "int":
            return ["int", d[1] + draw(st.sampled_from([1, -1, 10]))]
        if k == "str":
            return ["str", d[1] + draw(st.sampled_from(["x", " ", "\n", "'"]))]
        return draw(leafs)
    if choice == 6:
        return ["list", [d]]
    return d


def has_redundant_parens(text: str) -> bool:
    """does the expression contain a parenthesised sub-expression that is not a call's argument
    list and not a tuple display, e.g. `(2)` or `(1+0j)`?"""
    import io
    import tokenize

    try:
        toks = [t for t in tokenize.generate_tokens(io.StringIO(text).readline)
                if t.type not in (tokenize.NL, tokenize.NEWLINE, tokenize.COMMENT, tokenize.INDENT,
                                  tokenize.DEDENT, tokenize.ENDMARKER)]
    except Exception:
        return False
    for i, t in enumerate(toks):
        if t.string != "(":
            continue
        if i > 0 and (toks[i - 1].type == tokenize.NAME or toks[i - 1].string in (")", "]")):
            continue  # call
        depth = 0
        comma = False
        empty = True
        for u in toks[i + 1:]:
            if u.string in "([{":
                depth += 1
            elif u.string in ")]}":
                if depth == 0:
                    break
                depth -= 1
            elif u.string == "," and depth == 0:
                comma = True
            empty = False
        if not comma and not empty:
            return True
    return False
