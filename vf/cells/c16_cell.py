"""One cell of the C16 matrix: a separate interpreter (own PYTHONHASHSEED) runs a batch of cases
under one formatter configuration and writes the rewritten argument texts."""
import contextlib
import json
import sys


def main():
    batch_file, out_file, fmt = sys.argv[1:4]
    from vf import drivers
    from vf.props.c12 import PYPROJECTS, no_black
    from vf.props.c16 import module_for

    batch = json.load(open(batch_file))
    out = []
    for case in batch:
        row = []
        for variant in range(case["variants"]):
            src = module_for(case, variant)
            cm = no_black() if fmt == "noblack" else contextlib.nullcontext()
            try:
                with cm:
                    ses = drivers.run_inline({"test_a.py": src}, {"create", "fix"}, pyproject=PYPROJECTS[fmt])
                if not ses.ok():
                    err = ses.exec_error or ses.collect_error or ses.apply_error
                    row.append({"error": f"{type(err).__name__}: {err}"})
                    continue
                exc = ses.test_results.get("test_a.py::test_a")
                if exc is not None:
                    row.append({"error": f"test raised {type(exc).__name__}: {exc}"})
                    continue
                row.append({"text": ses.files_after["test_a.py"].decode("utf-8")})
            except Exception as e:  # harness problem inside the cell
                row.append({"harness_error": f"{type(e).__name__}: {e}"})
        out.append(row)
    json.dump(out, open(out_file, "w"))


if __name__ == "__main__":
    main()
