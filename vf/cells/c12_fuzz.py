"""Coverage-guided fuzz target for C12 (atheris / libFuzzer): bytes -> str -> generated literal -> read back.

usage: python -m vf.cells.c12_fuzz <out.json> <corpus_dir> -runs=N -seed=S
The semantic oracle (round trip) is inside the target; the first failing input is written to <out.json>."""
import json
import sys

import atheris

with atheris.instrument_imports(include=["inline_snapshot"]):
    import inline_snapshot._utils  # noqa: F401
    import inline_snapshot._code_repr  # noqa: F401
    import inline_snapshot._source_file  # noqa: F401

from vf.props import c12
from vf.runner import Violation

OUT = sys.argv[1]
COUNT = {"n": 0, "tricky": 0}


def one(data: bytes):
    fdp = atheris.FuzzedDataProvider(data)
    kind = fdp.ConsumeIntInRange(0, 3)
    if kind == 0:
        v = fdp.ConsumeBytes(fdp.remaining_bytes())
    elif kind == 1:
        # adversarial alphabet
        alpha = "'\"\\\n\r a\t{}#é"
        v = "".join(alpha[b % len(alpha)] for b in fdp.ConsumeBytes(fdp.remaining_bytes()))
    else:
        v = fdp.ConsumeUnicode(fdp.remaining_bytes())
    COUNT["n"] += 1
    if c12.tricky(v):
        COUNT["tricky"] += 1
    try:
        c12.level1(v)
    except Violation as e:
        json.dump({"kind": e.kind, "message": e.message,
                   "case": {"b": list(v)} if isinstance(v, bytes) else {"s": v}, "count": COUNT}, open(OUT, "w"))
        raise


def main():
    args = [sys.argv[0]] + sys.argv[2:]
    atheris.Setup(args, one)
    try:
        atheris.Fuzz()
    finally:
        pass


if __name__ == "__main__":
    main()
