"""Program generator: a list of *sites* rendered to a test module.

site = {
  "op":     "eq" | "le" | "ge" | "in" | "getitem",
  "prev":   None | "<source text of the previous argument>",
  "events": simple ops: [desc, ...]      getitem: [[key_desc, subop, desc], ...]
  "place":  "assert" | "var" | "module" | "helper" | "lambda" | "nested"
  "style":  "assert" | "record"
  "rev":    bool   (write `S == X` / `S >= X` instead of `X == S` / `X <= S`)
  "pre":    ""     (statement text put on the same line before the site, e.g. 'u = "é"; ')
  "call":   "snapshot(" spelling: {"open": "", "close": ""} whitespace/comments inside the parens
}
program = {"sites": [...], "tests": [[site indices], ...], "header": [...lines], "eol": "\n"}

The renderer returns the source and, for every site, its position in source order (sites
are on distinct lines unless they share a line on purpose, then left-to-right).
"""

from __future__ import annotations

from hypothesis import strategies as st

from . import gen_values as gv
from .models.categories import MISSING

HEADER = ["from inline_snapshot import snapshot", "from vf_prelude import *", "", "LOG = []", ""]

HELPERS = {
    ("eq", "assert"): "def h_eq(a, b):\n    assert a == b\n",
    ("le", "assert"): "def h_le(a, b):\n    assert a <= b\n",
    ("ge", "assert"): "def h_ge(a, b):\n    assert a >= b\n",
    ("in", "assert"): "def h_in(a, b):\n    assert a in b\n",
    ("eq", "record"): "def r_eq(a, b):\n    LOG.append(a == b)\n",
    ("le", "record"): "def r_le(a, b):\n    LOG.append(a <= b)\n",
    ("ge", "record"): "def r_ge(a, b):\n    LOG.append(a >= b)\n",
    ("in", "record"): "def r_in(a, b):\n    LOG.append(a in b)\n",
}


def _has_opaque(prog):
    for s in prog["sites"]:
        if s.get("prev") and "HasRepr" in s["prev"]:
            return True
        ds = []
        for e in s["events"]:
            ds += [e[0], e[2]] if s["op"] == "getitem" else [e]
        if s.get("prev_desc") is not None:
            ds.append(s["prev_desc"])
        for d in ds:
            if any(x[0] == "opaque" for x in gv.walk(d)):
                return True
    return False


def cmp_expr(op, X, S, rev=False):
    if op == "eq":
        return f"{S} == {X}" if rev else f"{X} == {S}"
    if op == "le":
        return f"{S} >= {X}" if rev else f"{X} <= {S}"
    if op == "ge":
        return f"{S} <= {X}" if rev else f"{X} >= {S}"
    if op == "in":
        return f"{X} in {S}"
    raise ValueError(op)


def stmt(style, expr, tag=None):
    if style == "record":
        return f"LOG.append({expr})"
    return f"assert {expr}"


def snap_call(site):
    prev = site.get("prev")
    c = site.get("call") or {}
    inner = (c.get("open", "") + (prev if prev is not None else "") + c.get("close", ""))
    return f"snapshot({inner})"


def render_program(prog):
    sites = prog["sites"]
    tests = prog.get("tests") or [list(range(len(sites)))]
    lines = list(prog.get("header") or HEADER)
    if not prog.get("header") and _has_opaque(prog):
        lines[0] = "from inline_snapshot import snapshot, HasRepr"
    site_line = {}

    used_helpers = []
    for s in sites:
        if s.get("place") == "helper":
            ops = {s["op"]} if s["op"] != "getitem" else {e[1] for e in s["events"] if e[1] != "access"}
            for o in ops:
                key = (o, s.get("style", "assert"))
                if key not in used_helpers:
                    used_helpers.append(key)
    for key in used_helpers:
        lines += HELPERS[key].rstrip("\n").split("\n") + [""]

    # module level sites
    for i, s in enumerate(sites):
        if s.get("place") == "module":
            site_line[i] = len(lines)
            lines.append(f"S{i} = {snap_call(s)}")
    lines.append("")

    def events_of(i, part, nparts):
        ev = sites[i]["events"]
        if nparts == 1:
            return ev
        return ev[part::nparts]

    use_count = {}
    for t in tests:
        for i in t:
            use_count[i] = use_count.get(i, 0) + 1
    seen = {}

    for ti, t in enumerate(tests):
        lines.append(f"def test_{ti}():")
        body = []
        for i in t:
            s = sites[i]
            part = seen.get(i, 0)
            seen[i] = part + 1
            ev = events_of(i, part, use_count[i])
            body += _render_site(i, s, ev, site_line, len(lines) + len(body))
        if not body:
            body = ["    pass"]
        lines += body
        lines.append("")
    eol = prog.get("eol", "\n")
    src = eol.join(lines) + eol
    order = sorted(site_line, key=lambda i: site_line[i])
    return src, order


def _X(d):
    return gv.render(d)


def _render_site(i, s, ev, site_line, base):
    op, style, place = s["op"], s.get("style", "assert"), s.get("place", "assert")
    rev = s.get("rev", False)
    pre = s.get("pre", "")
    ind = "    "
    out = []

    def ev_expr(e, S):
        if op == "getitem":
            k, subop, x = e
            if subop == "access":
                # the sub-snapshot is looked up but not compared
                return f"({S}[{_X(k)}], True)[1]"
            return cmp_expr(subop, _X(x), f"{S}[{_X(k)}]", rev)
        return cmp_expr(op, _X(e), S, rev)

    if (op == "getitem" and len({e[1] for e in ev}) > 1 and len(ev) > 1
            and place not in ("module", "var")):
        place = "var"
    if s.get("mutate_after") and op in ("eq", "le", "ge", "in") and len(ev) == 1 and place in ("assert", "var"):
        # the observed object is bound to a name, compared, and mutated afterwards: what is recorded must
        # be the value at comparison time (the harness' expectation is built independently)
        out.append(ind + f"_v{i} = {_X(ev[0])}")
        site_line[i] = base + len(out)
        out.append(ind + pre + stmt(style, cmp_expr(op, f"_v{i}", snap_call(s), rev)))
        out.append(ind + f"mutate_in_place(_v{i})")
        return out
    if place == "module":
        for e in ev:
            out.append(ind + stmt(style, ev_expr(e, f"S{i}")))
        return out
    if place == "var":
        site_line[i] = base + len(out)
        out.append(ind + pre + f"_s{i} = {snap_call(s)}")
        for e in ev:
            out.append(ind + stmt(style, ev_expr(e, f"_s{i}")))
        return out
    if place == "nested":
        out.append(ind + f"def _f{i}():")
        site_line[i] = base + len(out)
        out.append(ind + ind + pre + f"return {snap_call(s)}")
        if len(ev) == 1:
            out.append(ind + stmt(style, ev_expr(ev[0], f"_f{i}()")))
        else:
            out += _loop(i, s, ev, f"_f{i}()", ind, style, rev)
        return out
    # inline placements: assert / helper / lambda
    S = snap_call(s)
    if place == "lambda":
        S = f"(lambda: {S})()"
    if len(ev) == 1 and not s.get("force_loop"):
        site_line[i] = base + len(out)
        if place == "helper" and not (op == "getitem" and ev[0][1] == "access"):
            e = ev[0]
            if op == "getitem":
                k, subop, x = e
                h = ("h_" if style == "assert" else "r_") + subop
                out.append(ind + pre + f"{h}({_X(x)}, {S}[{_X(k)}])")
            else:
                h = ("h_" if style == "assert" else "r_") + op
                out.append(ind + pre + f"{h}({_X(e)}, {S})")
        else:
            out.append(ind + pre + stmt(style, ev_expr(ev[0], S)))
        return out
    # several events on one call site: a loop
    lp = _loop(i, s, ev, S, ind, style, rev, helper=(place == "helper"))
    # the snapshot call is on the last line of the loop body
    site_line[i] = base + len(out) + len(lp) - 1
    out += lp
    return out


def _loop(i, s, ev, S, ind, style, rev, helper=False):
    op = s["op"]
    out = []
    if op == "getitem":
        subops = {e[1] for e in ev}
        if len(subops) == 1:
            subop = next(iter(subops))
            items = ", ".join(f"({_X(k)}, {_X(x)})" for k, _so, x in ev)
            out.append(ind + f"for _k, _x in [{items}]:")
            if helper:
                h = ("h_" if style == "assert" else "r_") + subop
                out.append(ind * 2 + f"{h}(_x, {S}[_k])")
            else:
                out.append(ind * 2 + stmt(style, cmp_expr(subop, "_x", f"{S}[_k]", rev)))
        else:
            raise AssertionError('mixed sub-operations need place=var')
        return out
    items = ", ".join(_X(e) for e in ev)
    out.append(ind + f"for _x in [{items}]:")
    if helper:
        h = ("h_" if style == "assert" else "r_") + op
        out.append(ind * 2 + f"{h}(_x, {S})")
    else:
        out.append(ind * 2 + stmt(style, cmp_expr(op, "_x", S, rev)))
    return out


# ----------------------------------------------------------------------------- model glue


def exec_events(prog):
    """events of every site in the order the rendered tests execute them (descriptions)"""
    sites = prog["sites"]
    tests = prog.get("tests") or [list(range(len(sites)))]
    use_count = {}
    for t in tests:
        for i in t:
            use_count[i] = use_count.get(i, 0) + 1
    seen = {}
    out = {i: [] for i in range(len(sites))}
    for t in tests:
        for i in t:
            part = seen.get(i, 0)
            seen[i] = part + 1
            ev = sites[i]["events"]
            out[i] += ev if use_count[i] == 1 else ev[part::use_count[i]]
    return out


def build_events(op, events):
    if op == "getitem":
        return [(gv.build(k), so, gv.build(x)) for k, so, x in events]
    return [gv.build(x) for x in events]


def built_events(site):
    if site["op"] == "getitem":
        return [(gv.build(k), so, gv.build(x)) for k, so, x in site["events"]]
    return [gv.build(x) for x in site["events"]]


# ----------------------------------------------------------------------------- strategies

SIMPLE_OPS = ["eq", "le", "ge", "in"]
PLACES = ["assert", "assert", "var", "module", "helper", "lambda", "nested"]


def simple_events(op, tier, max_leaves=None):
    """events (descriptions) for a simple op"""
    if op == "eq":
        return st.tuples(gv.values(tier, max_leaves), st.integers(1, 3)).map(lambda t: [t[0]] * t[1])
    if op in ("le", "ge"):
        return gv.ordered_family(tier)
    if op == "in":
        return st.lists(gv.values(tier, 4 if max_leaves is None else min(4, max_leaves)),
                        min_size=1, max_size=4)
    raise ValueError(op)


def getitem_events(tier, max_leaves=None):
    keys = st.one_of(
        st.text(alphabet="ab'\" \n", max_size=3).map(lambda s: ["str", s]),
        st.integers(0, 3).map(lambda i: ["int", i]),
        gv.hashables(tier, 2),
    )

    @st.composite
    def one(draw):
        n = draw(st.sampled_from([1, 2, 3]))
        ks = draw(st.lists(keys, min_size=n, max_size=n, unique_by=lambda d: repr(gv.build(d)) if _hashable(d) else repr(d)))
        # keys must be pairwise different under ==/hash
        built = []
        out = []
        for k in ks:
            kb = gv.build(k)
            if any(kb == b for b in built):
                continue
            built.append(kb)
            subop = draw(st.sampled_from(SIMPLE_OPS))
            evs = draw(simple_events(subop, tier, 4 if max_leaves is None else max_leaves))
            for x in evs:
                out.append([k, subop, x])
        # interleave a bit: rotate
        r = draw(st.integers(0, max(0, len(out) - 1)))
        if draw(st.booleans()):
            # keep per-key relative order but interleave keys
            out = out[r:] + out[:r]
        return out

    return one()


def _hashable(d):
    try:
        hash(gv.build(d))
        return True
    except Exception:
        return False


@st.composite
def site(draw, tier="quick", ops=("eq", "le", "ge", "in", "getitem"), styles=("assert",),
         places=PLACES, max_leaves=None):
    op = draw(st.sampled_from(list(ops)))
    if op == "getitem":
        events = draw(getitem_events(tier, max_leaves))
    else:
        events = draw(simple_events(op, tier, max_leaves))
    place = draw(st.sampled_from(list(places)))
    s = {"op": op, "prev": None, "events": events, "place": place,
         "style": draw(st.sampled_from(list(styles))), "rev": False}
    if op in ("eq", "le", "ge") and place != "helper":
        s["rev"] = draw(st.booleans())
    s["mutate_after"] = draw(st.sampled_from([False, False, True]))
    if s["mutate_after"] and op in ("eq", "in") and draw(st.booleans()):
        # shallowly immutable wrappers around a mutable object, observed once and mutated afterwards
        s["events"] = [draw(aliasing_value(tier))]
        s["place"] = draw(st.sampled_from(["assert", "var"]))
    return s


def aliasing_value(tier):
    ints = st.integers(0, 9).map(lambda i: ["int", i])
    lst = st.lists(ints, max_size=3).map(lambda xs: ["list", xs])
    dct = st.lists(st.tuples(ints, ints).map(list), max_size=2, unique_by=lambda kv: kv[0][1]).map(lambda kv: ["dict", kv])
    inner = st.one_of(lst, dct, st.lists(ints, max_size=2).map(lambda xs: ["set", xs]))
    return st.one_of(
        st.tuples(ints, inner).map(lambda t: ["tuple", [t[0], t[1]]]),
        inner.map(lambda x: ["tuple", [x]]),
        st.tuples(inner, ints).map(lambda t: ["call", "NT", [["a", t[0]], ["b", t[1]]]]),
        inner.map(lambda x: ["call", "TNT", [["p", x]]]),
        st.tuples(ints, inner).map(lambda t: ["tuple", [["tuple", [t[0], t[1]]], t[0]]]),
        inner.map(lambda x: ["call", "FPoint", [["x", x]]]),
        inner,
    )


@st.composite
def program(draw, tier="quick", max_sites=3, **kw):
    n = draw(st.sampled_from(list(range(1, max_sites + 1))))
    sites = [draw(site(tier, **kw)) for _ in range(n)]
    # tests: split the sites over 1-2 test functions; module-level sites may be shared
    if n > 1 and draw(st.booleans()):
        cut = draw(st.integers(1, n - 1))
        tests = [list(range(cut)), list(range(cut, n))]
        for i, s in enumerate(sites):
            if s["place"] == "module" and len(s["events"]) >= 2 and i < cut and draw(st.booleans()):
                tests[1].append(i)
    else:
        tests = [list(range(n))]
    return {"sites": sites, "tests": tests}


# ------------------------------------------------------------------- sites with a previous value

from . import gen_render as gr  # noqa: E402


@st.composite
def prev_for_eq(draw, v, tier):
    """previous value description for an == site observing v"""
    c = draw(st.integers(0, 9))
    if c == 0:
        p = v
    elif c == 1:
        p = draw(gv.values(tier, 6))
    else:
        p = draw(gr.mutate(v, tier))
    if not gv.sound(p) or not gv.no_dup_keys(p):
        p = v if gv.no_dup_keys(v) else ["int", 0]
    return p


@st.composite
def keyed_value(draw, tier):
    keys = draw(st.lists(st.sampled_from([["str", "a"], ["str", "b"], ["str", "c"], ["int", 1], ["int", 2], ["none"],
                                          ["tuple", [["int", 1], ["int", 2]]]]),
                         min_size=2, max_size=4, unique_by=repr))
    small = gv.values(tier, 3)
    return ["dict", [[k, draw(small)] for k in keys]]


@st.composite
def site_with_prev(draw, tier="quick", ops=("eq", "le", "ge", "in", "getitem"), styles=("assert",),
                   places=PLACES, max_leaves=None, noise=None, p_missing=0.15):
    """site whose previous argument text is a (noisy) rendering of a generated previous value.
    adds "prev_desc" (None when the call is empty)."""
    op = draw(st.sampled_from(list(ops)))
    place = draw(st.sampled_from(list(places)))
    style = draw(st.sampled_from(list(styles)))
    missing = draw(st.integers(0, 99)) < p_missing * 100

    def text(d):
        return draw(gr.noisy(d, noise, top_display=(op == "getitem")))

    if draw(st.integers(0, 14)) == 0:
        # a snapshot that is never compared (only its text can be updated)
        pd = draw(gv.values(tier, 6))
        return {"op": "eq", "events": [], "place": "var", "style": style, "rev": False,
                "prev_desc": pd, "prev": text(pd)}

    if op == "eq":
        if draw(st.integers(0, 5)) == 0:
            # record-like values: several keyed entries, so that edits move, drop and change entries of one mapping
            events = [draw(keyed_value(tier))] * draw(st.sampled_from([1, 1, 2]))
        else:
            events = draw(simple_events("eq", tier, max_leaves))
        pd = None if missing else draw(prev_for_eq(events[0], tier))
    elif op in ("le", "ge"):
        fam = draw(ordered_family_with_prev(tier))
        events, pd = fam[:-1], (None if missing else fam[-1])
    elif op == "in":
        events = draw(simple_events("in", tier, max_leaves))
        if missing:
            pd = None
        else:
            keep = [e for e in events if draw(st.booleans())]
            extra = draw(st.lists(gv.hashable_leaves(tier), max_size=2))
            items = keep + extra
            items = draw(st.permutations(items)) if items else items
            pd = ["list", list(items)]
    else:
        events = draw(getitem_events(tier, max_leaves))
        if missing:
            pd = None
        else:
            per = {}
            order = []
            for k, so, x in events:
                kk = repr(k)
                if kk not in per:
                    per[kk] = (k, so, [])
                    order.append(kk)
                per[kk][2].append(x)
            kv = []
            for kk in order:
                k, so, xs = per[kk]
                if draw(st.integers(0, 3)) == 0:
                    continue  # key missing in prev -> create
                if so == "eq":
                    cp = draw(prev_for_eq(xs[0], tier))
                elif so in ("le", "ge"):
                    cp = draw(st.sampled_from(xs)) if draw(st.booleans()) else _shift(draw, xs)
                else:
                    keep = [e for e in xs if draw(st.booleans())]
                    extra = draw(st.lists(gv.hashable_leaves(tier), max_size=1))
                    cp = ["list", keep + extra]
                kv.append([k, cp])
            for _ in range(draw(st.integers(0, 2))):
                nk = draw(st.integers(10, 14).map(lambda i: ["int", i]))
                if all(gv.build(nk) != gv.build(a) for a, _b in kv) and all(
                        gv.build(nk) != gv.build(e[0]) for e in events):
                    # (anywhere: an unused entry in front of used ones shifts the positions of later inserts)
                    kv.insert(draw(st.integers(0, len(kv))), [nk, draw(gv.hashable_leaves(tier))])
            pd = ["dict", kv]
            if draw(st.integers(0, 2)) == 0:
                # a key of the previous value that is only looked up (an optional field that is not compared)
                idle = [k for k, _v in kv if all(gv.build(k) != gv.build(e[0]) for e in events)]
                if idle:
                    events = list(events)
                    events.insert(draw(st.integers(0, len(events))), [draw(st.sampled_from(idle)), "access", ["none"]])
    s = {"op": op, "events": events, "place": place, "style": style, "rev": False,
         "prev_desc": pd, "prev": None if pd is None else text(pd)}
    if op in ("eq", "le", "ge") and place != "helper":
        s["rev"] = draw(st.booleans())
    s["mutate_after"] = draw(st.sampled_from([False, False, True]))
    if s["mutate_after"] and pd is None and op in ("eq", "in") and draw(st.booleans()):
        s["events"] = [draw(aliasing_value(tier))]
        s["place"] = draw(st.sampled_from(["assert", "var"]))
    return s


def _shift(draw, xs):
    """a bound candidate from the same ordered family that may lie outside the observations"""
    x = draw(st.sampled_from(xs))
    k = x[0]
    if k == "int":
        return ["int", x[1] + draw(st.integers(-3, 3))]
    if k == "float":
        return ["float", repr(float(x[1]) + draw(st.sampled_from([-1.5, 0.0, 2.0])))]
    if k == "str":
        return ["str", x[1] + draw(st.sampled_from(["", "a", "b"]))] if draw(st.booleans()) else ["str", x[1][:-1]]
    if k == "bytes":
        return ["bytes", list(x[1]) + draw(st.sampled_from([[], [0], [255]]))]
    return x


@st.composite
def ordered_family_with_prev(draw, tier):
    xs = draw(gv.ordered_family(tier))
    p = draw(st.sampled_from(xs)) if draw(st.booleans()) else _shift(draw, xs)
    return list(xs) + [p]


@st.composite
def program_with_prev(draw, tier="quick", max_sites=3, min_sites=1, **kw):
    n = draw(st.sampled_from(list(range(min_sites, max_sites + 1))))
    sites = [draw(site_with_prev(tier, **kw)) for _ in range(n)]
    if n > 1 and draw(st.booleans()):
        cut = draw(st.integers(1, n - 1))
        tests = [list(range(cut)), list(range(cut, n))]
        for i, s in enumerate(sites):
            if s["place"] == "module" and len(s["events"]) >= 2 and i < cut and draw(st.booleans()):
                tests[1].append(i)
    else:
        tests = [list(range(n))]
    return {"sites": sites, "tests": tests}


def prev_value(site):
    return MISSING if site.get("prev_desc") is None else gv.build(site["prev_desc"])
