"""Oracle toolkit: snapshot-site extraction, masked diff, namespace evaluation."""

from __future__ import annotations

import ast


class Site:
    def __init__(self, call, src, line_offsets):
        self.call = call
        self.args = call.args
        self.keywords = call.keywords
        # character offsets of the text between the parentheses
        self.open = None
        self.close = None


def _line_starts(text: str):
    """start offsets of the lines; line endings are \\n, \\r\\n or a lone \\r (as for python's tokenizer)"""
    starts = [0]
    n = len(text)
    for i, c in enumerate(text):
        if c == "\n":
            starts.append(i + 1)
        elif c == "\r" and not (i + 1 < n and text[i + 1] == "\n"):
            starts.append(i + 1)
    return starts


def _offset(text, starts, lineno, col_bytes):
    """ast columns are UTF-8 byte offsets into the line"""
    line_start = starts[lineno - 1]
    line_end = starts[lineno] if lineno < len(starts) else len(text)
    line = text[line_start:line_end]
    b = line.encode("utf-8", "surrogatepass")[:col_bytes]
    return line_start + len(b.decode("utf-8", "surrogatepass"))


def snapshot_calls(tree, name="snapshot"):
    """outermost calls `snapshot(...)` in source order (nested snapshot calls excluded)"""
    found = []

    def visit(node, inside):
        is_site = (isinstance(node, ast.Call) and isinstance(node.func, ast.Name)
                   and node.func.id == name)
        if is_site and not inside:
            found.append(node)
        for ch in ast.iter_child_nodes(node):
            visit(ch, inside or is_site)

    visit(tree, False)
    found.sort(key=lambda n: (n.lineno, n.col_offset))
    return found


def all_snapshot_calls(tree, name="snapshot"):
    found = [n for n in ast.walk(tree) if isinstance(n, ast.Call)
             and isinstance(n.func, ast.Name) and n.func.id == name]
    found.sort(key=lambda n: (n.lineno, n.col_offset))
    return found


def site_spans(text: str, name="snapshot", outermost=True):
    """list of (open_paren_offset+1, close_paren_offset, call_node) for every site; the span
    is the text strictly between the parentheses of the call"""
    tree = ast.parse(text)
    starts = _line_starts(text)
    calls = snapshot_calls(tree, name) if outermost else all_snapshot_calls(tree, name)
    spans = []
    for c in calls:
        f_end = _offset(text, starts, c.func.end_lineno, c.func.end_col_offset)
        end = _offset(text, starts, c.end_lineno, c.end_col_offset)
        open_ = text.index("(", f_end)
        close = end - 1
        assert text[close] == ")", (text[close], text[f_end:end])
        spans.append((open_ + 1, close, c))
    return spans


MASK = "\x00MASK\x00"


def masked(text: str, which=None, name="snapshot") -> str:
    """text with the argument spans of the selected sites (indices; None = all) replaced"""
    spans = site_spans(text, name)
    out = []
    pos = 0
    for i, (a, b, _c) in enumerate(spans):
        if which is not None and i not in which:
            continue
        out.append(text[pos:a])
        out.append(MASK)
        pos = b
    out.append(text[pos:])
    return "".join(out)


class _MaskArgs(ast.NodeTransformer):
    def __init__(self, which, name):
        self.which = which
        self.name = name
        self.targets = None

    def run(self, tree):
        calls = snapshot_calls(tree, self.name)
        self.targets = {id(c) for i, c in enumerate(calls)
                        if self.which is None or i in self.which}
        return self.visit(tree)

    def visit_Call(self, node):
        if id(node) in self.targets:
            node.args = []
            node.keywords = []
            return node
        return self.generic_visit(node)


def ast_masked(text: str, which=None, name="snapshot") -> str:
    tree = ast.parse(text)
    tree = _MaskArgs(which, name).run(tree)
    return ast.dump(tree)


def eval_site_args(text: str, namespace: dict, name="snapshot"):
    """evaluate the single argument of every outermost site in `namespace`.
    returns list of ("value", v) | ("empty", None) | ("error", exc)"""
    tree = ast.parse(text)
    out = []
    for c in snapshot_calls(tree, name):
        if not c.args and not c.keywords:
            out.append(("empty", None))
            continue
        if len(c.args) != 1 or c.keywords:
            out.append(("error", ValueError(f"site has {len(c.args)} args")))
            continue
        try:
            v = eval(compile(ast.Expression(c.args[0]), "<site>", "eval"), namespace)
            out.append(("value", v))
        except Exception as e:
            out.append(("error", e))
    return out


def site_arg_texts(text: str, name="snapshot"):
    return [text[a:b] for a, b, _ in site_spans(text, name)]


def strip_added_imports(before: str, after: str):
    """remove the exact lines inline-snapshot may add (`from inline_snapshot import external`
    / `HasRepr`) from `after` when they are not in `before` - once, and only if the new code
    needs that name (it is called somewhere in `after`)"""
    import re

    out = after
    for name in ("external", "HasRepr"):
        line = f"from inline_snapshot import {name}\n"
        used = re.search(r"\b" + name + r"\(", after) is not None
        if used and line not in before and ("\n" + line) in out:
            out = out.replace("\n" + line, "", 1)
    return out
