"""Value universe U: JSON descriptions, an independent builder and an independent renderer.

A *description* is a JSON-able nested list ``[kind, ...]``.  ``build(d)`` constructs the
Python object, ``render(d)`` writes a pure-ASCII Python expression for it that shares no code
with inline-snapshot's ``code_repr`` (only Python's own ``ascii``/``repr`` of leaf builtins).
Strategies produce descriptions, so a shrunk failing case is its own replay file.
"""

from __future__ import annotations

import copy

import vf_prelude as P
from hypothesis import strategies as st

# ---------------------------------------------------------------------------------- build


def _b2s(b: bytes):
    return list(b)


CLASSES = {
    "Color": P.Color, "Level": P.Level, "Perm": P.Perm, "Outer.Inner": P.Outer.Inner,
    "Point": P.Point, "FPoint": P.FPoint, "Box": P.Box, "APoint": P.APoint,
    "AFrozen": P.AFrozen, "PModel": P.PModel, "NT": P.NT, "TNT": P.TNT,
    "Outer.Cfg": P.Outer.Cfg, "Opaque": P.Opaque, "Vec": P.Vec, "APriv": P.APriv, "PAlias": P.PAlias,
    "Hidden": P.Hidden, "AHidden": P.AHidden, "PHidden": P.PHidden, "PExtra": P.PExtra, "IVar": P.IVar,
    "SubPoint": P.SubPoint, "Point3": P.Point3, "HFirst": P.HFirst,
    "int": int, "str": str, "list": list, "dict": dict, "set": set, "float": float,
    "bytes": bytes, "tuple": tuple, "bool": bool, "frozenset": frozenset,
    "defaultdict": P.defaultdict,
}

CALL_FIELDS = {
    "Point": ["x", "y"], "FPoint": ["x", "y"], "Box": ["items", "name", "meta"],
    "APoint": ["a", "b", "c"], "AFrozen": ["k", "v"], "PModel": ["n", "tags", "opt"],
    "NT": ["a", "b"], "TNT": ["p", "q"], "Outer.Cfg": ["n"], "APriv": ["x", "y"], "PAlias": ["n", "other"],
    "Hidden": ["a", "b"], "AHidden": ["a", "b"], "PHidden": ["a", "b"], "PExtra": ["a", "zz"],
    "SubPoint": ["x", "y"], "Point3": ["x", "y", "z"], "HFirst": ["name", "n"],
}
REQUIRED = {
    "Point": ["x"], "FPoint": ["x"], "Box": [], "APoint": ["a"], "AFrozen": ["k"],
    "PModel": ["n"], "NT": ["a"], "TNT": ["p"], "Outer.Cfg": [], "APriv": ["x"], "PAlias": ["n"],
    "Hidden": ["a"], "AHidden": ["a"], "PHidden": ["a"], "PExtra": ["a"], "SubPoint": ["x"], "Point3": ["x"], "HFirst": [],
}
HASHABLE_CALLS = ["FPoint", "AFrozen", "NT", "TNT"]
UNHASHABLE_CALLS = ["Point", "Box", "APoint", "PModel", "Outer.Cfg", "APriv", "PAlias", "Hidden", "AHidden", "PHidden",
                    "PExtra", "SubPoint", "Point3", "HFirst"]


def build(d):
    k = d[0]
    if k == "none":
        return None
    if k in ("bool", "int", "str"):
        return d[1]
    if k == "float":
        return float(d[1])
    if k == "complex":
        return complex(float(d[1]), float(d[2]))
    if k == "bytes":
        return bytes(d[1])
    if k == "enum":
        return CLASSES[d[1]][d[2]]
    if k == "flag":
        cls = CLASSES[d[1]]
        v = cls(0)
        for m in d[2]:
            v |= cls[m]
        return v
    if k == "type":
        return CLASSES[d[1]]
    if k == "list":
        return [build(x) for x in d[1]]
    if k == "tuple":
        return tuple(build(x) for x in d[1])
    if k == "set":
        return {build(x) for x in d[1]}
    if k == "frozenset":
        return frozenset(build(x) for x in d[1])
    if k == "dict":
        return {build(a): build(b) for a, b in d[1]}
    if k == "call":
        return CLASSES[d[1]](**{n: build(v) for n, v in d[2]})
    if k == "ddict":
        return P.defaultdict(CLASSES[d[1]], {build(a): build(b) for a, b in d[2]})
    if k == "mylist":
        return P.MyList(build(x) for x in d[1])
    if k in ("myset", "myfrozen"):
        return (P.MySet if k == "myset" else P.MyFrozen)(build(x) for x in d[1])
    if k == "raw":
        return eval(d[1], dict(vars(P)))
    if k == "opaque":
        return P.Opaque(d[1])
    if k == "vec":
        return P.Vec(*[build(x) for x in d[1]])
    if k == "dinit":
        return P.make_dinit(build(d[1]), build(d[2]))
    raise ValueError(k)


# --------------------------------------------------------------------------------- render


def render(d) -> str:
    """pure-ASCII source text, independent of inline-snapshot's code generation"""
    k = d[0]
    if k == "none":
        return "None"
    if k in ("bool", "int"):
        return repr(d[1]) if d[1] is True or d[1] is False or d[1] >= 0 else f"({d[1]!r})"
    if k == "str":
        return ascii(d[1])
    if k == "float":
        f = float(d[1])
        if f == float("inf"):
            return "float('inf')"
        if f == float("-inf"):
            return "float('-inf')"
        return f"float({repr(f)!r})"
    if k == "complex":
        return f"complex(float({repr(float(d[1]))!r}), float({repr(float(d[2]))!r}))"
    if k == "bytes":
        return f"bytes({list(d[1])!r})"
    if k == "enum":
        return f"{d[1]}[{d[2]!r}]"
    if k == "flag":
        return "(" + " | ".join([f"{d[1]}(0)"] + [f"{d[1]}[{m!r}]" for m in d[2]]) + ")"
    if k == "type":
        return d[1]
    if k == "list":
        return "list([" + ", ".join(render(x) for x in d[1]) + "])"
    if k == "tuple":
        return "tuple([" + ", ".join(render(x) for x in d[1]) + "])"
    if k == "set":
        return "set([" + ", ".join(render(x) for x in d[1]) + "])"
    if k == "frozenset":
        return "frozenset([" + ", ".join(render(x) for x in d[1]) + "])"
    if k == "dict":
        return "dict([" + ", ".join(f"({render(a)}, {render(b)})" for a, b in d[1]) + "])"
    if k == "call":
        return f"{d[1]}(**dict([" + ", ".join(f"({n!r}, {render(v)})" for n, v in d[2]) + "]))"
    if k == "ddict":
        return (f"defaultdict({d[1]}, dict(["
                + ", ".join(f"({render(a)}, {render(b)})" for a, b in d[2]) + "]))")
    if k == "raw":
        return d[1]
    if k == "mylist":
        return "MyList([" + ", ".join(render(x) for x in d[1]) + "])"
    if k in ("myset", "myfrozen"):
        return ("MySet" if k == "myset" else "MyFrozen") + "([" + ", ".join(render(x) for x in d[1]) + "])"
    if k == "opaque":
        return f"Opaque({d[1]!r})"
    if k == "vec":
        return "Vec(*[" + ", ".join(render(x) for x in d[1]) + "])"
    if k == "dinit":
        return f"make_dinit({render(d[1])}, {render(d[2])})"
    raise ValueError(k)


def natural(d) -> str:
    """a plain, human-style rendering (used as hand-written previous text); ASCII only"""
    k = d[0]
    if k == "none":
        return "None"
    if k in ("bool", "int"):
        return repr(d[1])
    if k == "str":
        return ascii(d[1])
    if k == "float":
        f = float(d[1])
        if f in (float("inf"), float("-inf")):
            return render(d)
        return repr(f)
    if k == "complex":
        return repr(complex(float(d[1]), float(d[2])))
    if k == "bytes":
        return repr(bytes(d[1]))
    if k == "enum":
        return f"{d[1]}.{d[2]}"
    if k == "flag":
        return " | ".join(f"{d[1]}.{m}" for m in d[2]) if d[2] else f"{d[1]}(0)"
    if k == "type":
        return d[1]
    if k == "list":
        return "[" + ", ".join(natural(x) for x in d[1]) + "]"
    if k == "tuple":
        if len(d[1]) == 1:
            return "(" + natural(d[1][0]) + ",)"
        return "(" + ", ".join(natural(x) for x in d[1]) + ")"
    if k == "set":
        return "{" + ", ".join(natural(x) for x in d[1]) + "}" if d[1] else "set()"
    if k == "frozenset":
        return ("frozenset({" + ", ".join(natural(x) for x in d[1]) + "})") if d[1] else "frozenset()"
    if k == "dict":
        return "{" + ", ".join(f"{natural(a)}: {natural(b)}" for a, b in d[1]) + "}"
    if k == "call":
        return f"{d[1]}(" + ", ".join(f"{n}={natural(v)}" for n, v in d[2]) + ")"
    if k == "ddict":
        return f"defaultdict({d[1]}, {{" + ", ".join(f"{natural(a)}: {natural(b)}" for a, b in d[2]) + "})"
    if k == "raw":
        return d[1]
    if k == "mylist":
        return "MyList([" + ", ".join(natural(x) for x in d[1]) + "])"
    if k in ("myset", "myfrozen"):
        return ("MySet" if k == "myset" else "MyFrozen") + "([" + ", ".join(natural(x) for x in d[1]) + "])"
    if k == "opaque":
        return f"Opaque({d[1]!r})"
    if k == "vec":
        return "Vec(" + ", ".join(natural(x) for x in d[1]) + ")"
    if k == "dinit":
        return f"make_dinit({natural(d[1])}, {natural(d[2])})"
    raise ValueError(k)


# ------------------------------------------------------------------------------ predicates


def walk(d):
    yield d
    k = d[0]
    if k in ("list", "tuple", "set", "frozenset", "vec", "mylist", "myset", "myfrozen"):
        for x in d[1]:
            yield from walk(x)
    elif k == "dict":
        for a, b in d[1]:
            yield from walk(a)
            yield from walk(b)
    elif k == "ddict":
        for a, b in d[2]:
            yield from walk(a)
            yield from walk(b)
    elif k == "call":
        for _n, v in d[2]:
            yield from walk(v)
    elif k == "dinit":
        yield from walk(d[1])
        yield from walk(d[2])


def depth(d):
    k = d[0]
    subs = []
    if k in ("list", "tuple", "set", "frozenset", "vec", "mylist", "myset", "myfrozen"):
        subs = d[1]
    elif k == "dict":
        subs = [x for ab in d[1] for x in ab]
    elif k == "ddict":
        subs = [x for ab in d[2] for x in ab]
    elif k == "call":
        subs = [v for _n, v in d[2]]
    return 1 + max([depth(s) for s in subs], default=0)


BUILTIN_KINDS = {"none", "bool", "int", "str", "float", "complex", "bytes", "list", "tuple",
                 "dict", "set", "frozenset"}


def kinds(d):
    return {x[0] for x in walk(d)}


def str_is_tricky(s: str) -> bool:
    return (
        s == ""
        or any(c in s for c in "'\"\\\n\r\t")
        or s != s.strip()
        or not s.isprintable()
        or any(ord(c) > 0xFFFF for c in s)
    )


def is_nontrivial_value(d) -> bool:
    if depth(d) >= 3:
        return True
    ks = kinds(d)
    if ks - BUILTIN_KINDS:
        return True
    for x in walk(d):
        if x[0] == "str" and str_is_tricky(x[1]):
            return True
        if x[0] == "bytes" and any(b in (39, 34, 92, 10, 13) or b > 127 or b < 32 for b in x[1]):
            return True
    return False


def sound(d) -> bool:
    """soundness preconditions every real caller respects: v == v, deepcopy(v) == v"""
    try:
        v = build(d)
        if not (v == v):
            return False
        c = copy.deepcopy(v)
        return bool(c == v and v == c) and no_dup_keys(d)
    except Exception:
        return False


# ------------------------------------------------------------------------------ strategies

ADV = "'\"\\\n\r \ta{}é🐍\x00#"


def strings(tier="quick"):
    adv = st.text(alphabet=ADV, max_size=8)
    asc = st.text(alphabet=st.characters(min_codepoint=32, max_codepoint=126), max_size=12)
    uni = st.text(max_size=6)  # full unicode incl. surrogates
    sur = st.text(alphabet=st.characters(categories=["Cs", "Cc", "Zl", "Zp", "Cf", "Lu"]), max_size=4)
    return st.one_of(adv, asc, uni, sur, st.sampled_from(["", " ", "a", "\n", "a\nb", "a\nb\n", "'\"", "\\"]))


def ints():
    return st.one_of(
        st.integers(-3, 3),
        st.integers(),
        st.sampled_from([0, -1, 1, 2**31, 2**63, -(2**63), 10**30]),
    )


def floats():
    return st.one_of(
        st.floats(allow_nan=False, allow_infinity=False),
        st.sampled_from([0.0, -0.0, 1.5, 1e100, 1e-100, float("inf"), float("-inf"), 0.1]),
    ).map(lambda f: ["float", repr(f)])


def complexes():
    fl = st.floats(allow_nan=False, allow_infinity=False, width=32) | st.sampled_from([0.0, -0.0, 1.0, 2.5])
    # python's repr of a complex with a negative-zero part does not read back with the same signs
    # ((2-0j) evaluates to (2+0j)), so its text flips on every update run; excluded as a precondition
    def stable(d):
        c = complex(float(d[1]), float(d[2]))
        return repr(eval(repr(c))) == repr(c)

    return st.tuples(fl, fl).map(
        lambda t: ["complex", repr(float(t[0]) + 0.0), repr(float(t[1]) + 0.0)]).filter(stable)


def enums():
    return st.sampled_from(
        [["enum", "Color", "RED"], ["enum", "Color", "GREEN"], ["enum", "Color", "BLUE"],
         ["enum", "Color", "CRIMSON"], ["enum", "Level", "LOW"], ["enum", "Level", "HIGH"],
         ["enum", "Outer.Inner", "A"], ["enum", "Outer.Inner", "B"]]
    )


def flags(allow_empty=True):
    lo = 0 if allow_empty else 1
    return st.lists(st.sampled_from(["R", "W", "X"]), min_size=lo, max_size=3, unique=True).map(
        lambda ms: ["flag", "Perm", sorted(ms)]
    )


def types_():
    return st.sampled_from(["int", "str", "list", "dict", "Point", "Color", "Outer.Inner", "Vec",
                            "Outer.Cfg"]).map(lambda n: ["type", n])


def hashable_leaves(tier="quick"):
    return st.one_of(
        st.just(["none"]),
        st.booleans().map(lambda b: ["bool", b]),
        ints().map(lambda i: ["int", i]),
        strings(tier).map(lambda s: ["str", s]),
        st.binary(max_size=6).map(lambda b: ["bytes", list(b)]),
        floats(),
        enums(),
        flags(),
        types_(),
        complexes(),
    )


# values outside the structural universe, given as the expression that builds them (a leaf for every generator):
# an IntFlag with bits that have no name, dict subclasses, a defaultdict without content
EXOTIC = ["IPerm(12)", "IPerm(9)", "IPerm.R | IPerm.W", "IPerm(0)", "OrderedDict({'a': 1, 'b': 2})", "OrderedDict()",
          "Counter({'a': 2, 'b': 1})", "defaultdict(list)", "OrderedDict({'k': [1, 2]})"]


def exotic():
    return st.sampled_from(EXOTIC).map(lambda e: ["raw", e])


def hashables(tier="quick", max_leaves=4):
    def extend(ch):
        return st.one_of(
            st.lists(ch, max_size=3).map(lambda xs: ["tuple", xs]),
            st.lists(ch, max_size=3).map(lambda xs: ["frozenset", xs]),
            st.tuples(ch, ch).map(lambda t: ["call", "FPoint", [["x", t[0]], ["y", t[1]]]]),
            ch.map(lambda x: ["call", "FPoint", [["x", x]]]),
            st.tuples(ch, ch).map(lambda t: ["call", "AFrozen", [["k", t[0]], ["v", t[1]]]]),
            st.tuples(ch, ch).map(lambda t: ["call", "NT", [["a", t[0]], ["b", t[1]]]]),
            ch.map(lambda x: ["call", "TNT", [["p", x]]]),
        )

    return st.recursive(hashable_leaves(tier), extend, max_leaves=max_leaves)


def _call(name, ch):
    fields = CALL_FIELDS[name]
    req = REQUIRED[name]

    def mk(vals_mask):
        vals, mask = vals_mask
        out = []
        for f, v, m in zip(fields, vals, mask):
            if f in req or m:
                out.append([f, v])
        return ["call", name, out]

    return st.tuples(
        st.tuples(*[ch for _ in fields]), st.tuples(*[st.booleans() for _ in fields])
    ).map(mk)


def values(tier="quick", max_leaves=None, *, opaque=True):
    if max_leaves is None:
        max_leaves = 10 if tier == "quick" else 25
    hs = hashables(tier)
    leaves = st.one_of(hashable_leaves(tier), hashable_leaves(tier), hs)
    if opaque:
        leaves = st.one_of(leaves, st.integers(0, 6).map(lambda n: ["opaque", n]))
    leaves = st.one_of(leaves, leaves, leaves, leaves, leaves, leaves, leaves, exotic())

    def extend(ch):
        opts = [
            st.lists(ch, max_size=4).map(lambda xs: ["list", xs]),
            st.lists(ch, max_size=4).map(lambda xs: ["tuple", xs]),
            st.lists(st.tuples(hs, ch).map(list), max_size=4).map(lambda kv: ["dict", kv]),
            st.lists(hs, max_size=4).map(lambda xs: ["set", xs]),
            st.lists(hs, max_size=4).map(lambda xs: ["frozenset", xs]),
            st.lists(ch, max_size=3).map(lambda xs: ["vec", xs]),
            st.tuples(st.sampled_from(["list", "int", "dict"]),
                      st.lists(st.tuples(hs, ch).map(list), max_size=3)).map(
                lambda t: ["ddict", t[0], t[1]]),
        ]
        for name in CALL_FIELDS:
            if name in HASHABLE_CALLS:
                continue
            opts.append(_call(name, ch))
        for name in HASHABLE_CALLS:
            opts.append(_call(name, ch))
        return st.one_of(opts)

    return st.recursive(leaves, extend, max_leaves=max_leaves).filter(sound)


# totally ordered homogeneous values for bound operations
def ordered_family(tier="quick"):
    """a strategy of *lists* of descriptions drawn from one totally ordered family"""
    fams = [
        st.lists(st.integers(-50, 50).map(lambda i: ["int", i]), min_size=1, max_size=5),
        st.lists(st.floats(allow_nan=False, allow_infinity=False, width=32).map(
            lambda f: ["float", repr(float(f))]), min_size=1, max_size=5),
        st.lists(st.text(alphabet="ab'\" \n", max_size=4).map(lambda s: ["str", s]), min_size=1, max_size=5),
        st.lists(st.binary(max_size=3).map(lambda b: ["bytes", list(b)]), min_size=1, max_size=5),
        st.lists(st.tuples(st.integers(0, 3), st.text(alphabet="ab", max_size=2)).map(
            lambda t: ["tuple", [["int", t[0]], ["str", t[1]]]]), min_size=1, max_size=5),
        st.lists(st.sampled_from([["enum", "Level", "LOW"], ["enum", "Level", "HIGH"]]),
                 min_size=1, max_size=4),
    ]
    return st.one_of(fams)


def natural_of_value(v) -> str:
    """python's own repr, with prelude class objects spelled by name (rough canonical text)"""
    return repr(v)


def no_dup_keys(d) -> bool:
    """no dict display / set display of the description lists two equal keys / members"""
    for x in walk(d):
        items = None
        if x[0] == "dict":
            items = [a for a, _b in x[1]]
        elif x[0] == "ddict":
            items = [a for a, _b in x[2]]
        elif x[0] in ("set", "frozenset"):
            items = x[1]
        if items:
            built = [build(i) for i in items]
            for i, a in enumerate(built):
                for b in built[:i]:
                    if a == b:
                        return False
    return True
