"""Drivers: D-inline (in-process library session) and D-pytest (real subprocess session)."""

from __future__ import annotations

import ast
import contextlib
import io
import linecache
import os
import re
import shutil
import subprocess
import sys
import tempfile
import traceback
import warnings
import xml.etree.ElementTree as ET
from pathlib import Path

HOME = Path(os.environ.get("VERIF_HOME", Path(__file__).resolve().parent.parent))
REPO = Path(os.environ.get("VERIF_REPO", "/repo"))

DEFAULT_PYPROJECT = "[tool.black]\nline-length = 88\n"

_TMPROOT = None


def tmproot() -> Path:
    global _TMPROOT
    if _TMPROOT is None:
        base = "/dev/shm" if os.path.isdir("/dev/shm") and os.access("/dev/shm", os.W_OK) else None
        _TMPROOT = Path(tempfile.mkdtemp(prefix=f"vf-{os.getpid()}-", dir=base))
        import atexit

        atexit.register(lambda p=_TMPROOT: shutil.rmtree(p, ignore_errors=True))
    return _TMPROOT


_counter = 0


def fresh_dir(prefix="p") -> Path:
    global _counter
    _counter += 1
    d = tmproot() / f"{prefix}{os.getpid()}_{_counter}"
    d.mkdir(parents=True)
    return d


def to_bytes(x):
    return x if isinstance(x, bytes) else x.encode("utf-8", "surrogatepass")


def write_files(d: Path, files: dict):
    for name, content in files.items():
        p = d / name
        p.parent.mkdir(parents=True, exist_ok=True)
        p.write_bytes(to_bytes(content))


def read_files(d: Path, suffixes=(".py",)) -> dict:
    out = {}
    for p in sorted(d.rglob("*")):
        if p.is_file() and "__pycache__" not in p.parts and ".pytest_cache" not in p.parts:
            if suffixes is None or p.suffix in suffixes:
                out[str(p.relative_to(d))] = p.read_bytes()
    return out


def cleanup_caches():
    linecache.clearcache()
    try:
        from executing import Source

        for attr in list(vars(Source)):
            if "source_cache" in attr:
                v = getattr(Source, attr)
                if isinstance(v, dict):
                    v.clear()
    except Exception:
        pass


def reset_globals():
    from inline_snapshot import _config, _problems, _compare_context

    _config.config = _config.Config()
    _problems.all_problems = set()
    _compare_context._eq_check_only = False


class Session:
    """result of one D-inline session"""

    def __init__(self):
        self.files_before = {}
        self.files_after = {}
        self.reported = set()       # flags of all pending changes
        self.test_results = {}      # "file::test" -> None | exception instance
        self.exec_error = None      # exception while executing a module body
        self.collect_error = None   # exception from _changes()
        self.apply_error = None     # exception from apply_all / fix_all
        self.problems = []
        self.globals = {}
        self.changes = []
        self.n_snapshots = 0
        self.warnings = []

    def ok(self):
        return self.exec_error is None and self.collect_error is None and self.apply_error is None


def run_inline(files: dict, flags=(), *, directory: Path | None = None, keep=False,
               pyproject: str | None = DEFAULT_PYPROJECT, storage=True,
               on_changes=None, recorder_hook=None, test_prefix="test") -> Session:
    """Exactly the steps of Example.run_inline, with access to intermediate results.

    `files` maps relative names to str/bytes.  A pyproject.toml is always present (it pins
    black's and the config's upward search) unless `files` brings its own.
    """
    from inline_snapshot import _config
    from inline_snapshot._change import apply_all
    from inline_snapshot._external import DiscStorage
    from inline_snapshot._flags import Flags
    from inline_snapshot._global_state import snapshot_env
    from inline_snapshot._rewrite_code import ChangeRecorder
    from inline_snapshot import _problems

    d = directory or fresh_dir()
    res = Session()
    old_cwd = os.getcwd()
    try:
        if directory is None or files:
            write_files(d, files)
        # pytest runs in the project directory; black looks its configuration up from the cwd
        os.chdir(d)
        if not (d / "pyproject.toml").exists() and pyproject is not None:
            (d / "pyproject.toml").write_text(pyproject)
        res.files_before = read_files(d)
        reset_globals()
        _config.read_config(d / "pyproject.toml", _config.config)

        with warnings.catch_warnings(record=True) as wlist, snapshot_env() as state:
            warnings.simplefilter("always")
            recorder = ChangeRecorder()
            state.update_flags = Flags({*flags})
            if storage:
                state.storage = DiscStorage(d / ".storage")
            try:
                for filename in sorted(d.glob("*.py")):
                    g: dict = {"__name__": filename.stem, "__file__": str(filename)}
                    try:
                        code = compile(filename.read_text("utf-8"), str(filename), "exec")
                        with contextlib.redirect_stdout(io.StringIO()):
                            exec(code, g)
                    except Exception as e:  # module body raised
                        res.exec_error = e
                        res.globals[filename.name] = g
                        continue
                    res.globals[filename.name] = g
                    tests = [(k, v) for k, v in g.items()
                             if (k.startswith(test_prefix + "_") or k == test_prefix) and callable(v)]
                    for k, v in tests:
                        try:
                            with contextlib.redirect_stdout(io.StringIO()):
                                v()
                            res.test_results[f"{filename.name}::{k}"] = None
                        except Exception as e:
                            res.test_results[f"{filename.name}::{k}"] = e
            finally:
                state.active = False

            res.n_snapshots = len(state.snapshots)
            changes = []
            res.per_site = []
            try:
                for snapshot in state.snapshots.values():
                    cs = list(snapshot._changes())
                    changes += cs
                    node = snapshot._expr.node if snapshot._expr is not None else None
                    pos = (node.lineno, node.col_offset) if node is not None else None
                    res.per_site.append((pos, {c.flag for c in cs}))
            except Exception as e:
                res.collect_error = e
                res.collect_tb = traceback.format_exc()
            res.changes = changes
            res.reported = {c.flag for c in changes}
            if on_changes is not None:
                on_changes(changes, state)

            if res.collect_error is None:
                try:
                    apply_all([c for c in changes if c.flag in state.update_flags.to_set()],
                              recorder)
                    if recorder_hook is not None:
                        recorder_hook(recorder)
                    recorder.fix_all()
                except Exception as e:
                    res.apply_error = e
                    res.apply_tb = traceback.format_exc()
            res.problems = sorted(_problems.all_problems)
            _problems.all_problems = set()
            res.warnings = [str(w.message) for w in wlist]
        res.files_after = read_files(d)
        res.directory = d
        return res
    finally:
        os.chdir(old_cwd)
        cleanup_caches()
        if not keep and directory is None:
            shutil.rmtree(d, ignore_errors=True)


def stub_source(src):
    """the module with `from inline_snapshot import ...` redirected to the harness stub"""
    if isinstance(src, bytes):
        src = src.decode("utf-8")
    return re.sub(r"^from inline_snapshot import", "from vf_stub import", src, flags=re.M)


def run_disabled(files: dict, *, directory: Path | None = None, test_prefix="test"):
    """Re-execute modules with inline-snapshot inactive (the default global state, which is
    the --inline-snapshot=disable semantics: snapshot(x) returns x, snapshot() raises).

    returns (globals per file, results per test, exec_error)"""
    from inline_snapshot._global_state import state

    assert not state().active, "harness bug: disabled run inside an active session"
    d = directory or fresh_dir("d")
    out_g, results, exec_error = {}, {}, None
    try:
        if files:
            write_files(d, files)
        for filename in sorted(d.glob("*.py")):
            g: dict = {"__name__": filename.stem, "__file__": str(filename)}
            try:
                code = compile(filename.read_text("utf-8"), str(filename), "exec")
                with contextlib.redirect_stdout(io.StringIO()):
                    exec(code, g)
            except Exception as e:
                exec_error = e
                out_g[filename.name] = g
                continue
            out_g[filename.name] = g
            for k, v in list(g.items()):
                if (k.startswith(test_prefix + "_") or k == test_prefix) and callable(v):
                    try:
                        with contextlib.redirect_stdout(io.StringIO()):
                            v()
                        results[f"{filename.name}::{k}"] = None
                    except Exception as e:
                        results[f"{filename.name}::{k}"] = e
        return out_g, results, exec_error
    finally:
        cleanup_caches()
        if directory is None:
            shutil.rmtree(d, ignore_errors=True)


# ---------------------------------------------------------------------------- D-pytest

CI_VARS = ("CI", "bamboo.buildKey", "BUILD_ID", "BUILD_NUMBER", "BUILDKITE", "CIRCLECI",
           "CONTINUOUS_INTEGRATION", "GITHUB_ACTIONS", "HUDSON_URL", "JENKINS_URL",
           "TEAMCITY_VERSION", "TRAVIS", "PYCHARM_HOSTED")

DISABLED_PLUGINS = ["benchmark", "cov", "asyncio", "freezer", "mock", "rerunfailures",
                    "subtests", "timeout", "cacheprovider", "hypothesispytest", "anyio",
                    "pytest_cov", "pytest-benchmark"]


def base_env(extra=None, hashseed="0"):
    env = {}
    for k in ("PATH", "HOME", "LANG", "LC_ALL", "TMPDIR"):
        if k in os.environ:
            env[k] = os.environ[k]
    env["TERM"] = "unknown"
    env["COLUMNS"] = "120"
    env["PYTHONHASHSEED"] = str(hashseed)
    env["PYTHONDONTWRITEBYTECODE"] = "1"
    env["PYTHONPATH"] = os.pathsep.join(
        [str(REPO / "src"), str(HOME / "vf" / "prelude"), str(HOME)]
    )
    env["NO_COLOR"] = "1"
    if extra:
        env.update(extra)
    if "FORCE_COLOR" in env:
        env.pop("NO_COLOR", None)
    return env


class PytestResult:
    def __init__(self):
        self.returncode = None
        self.stdout = ""
        self.stderr = ""
        self.outcomes = {}   # test id -> passed/failed/error/skipped/xfailed/xpassed
        self.report = ""
        self.files_after = {}
        self.all_after = {}


def _parse_junit(path: Path):
    out = {}
    if not path.exists():
        return out
    try:
        root = ET.parse(path).getroot()
    except ET.ParseError:
        return out
    for tc in root.iter("testcase"):
        name = f"{tc.get('classname')}::{tc.get('name')}"
        kinds = {child.tag for child in tc}
        if "error" in kinds and "failure" in kinds:
            o = "failed+error"
        elif "error" in kinds:
            o = "error"
        elif "failure" in kinds:
            o = "failed"
        elif "skipped" in kinds:
            o = "skipped"
        else:
            o = "passed"
        # a testcase can appear twice (call + teardown error)
        prev = out.get(name)
        if prev is None or prev == "passed":
            out[name] = o
        elif o != "passed" and o != prev:
            out[name] = prev + "+" + o
    return out


def extract_report(stdout: str) -> str:
    lines = []
    record = False
    for line in stdout.splitlines():
        s = line.strip()
        if s.startswith("====") :
            record = False
        if record:
            lines.append(line.rstrip())
        if s.startswith(("═════", "-----")) and "inline-snapshot" in s:
            record = True
    return "\n".join(lines)


def run_pytest(directory: Path, args=(), *, env=None, stdin=b"", hashseed="0", timeout=120,
               plugins_off=True, bytecode=False) -> PytestResult:
    """bytecode=True: like an ordinary user - python and pytest keep their bytecode caches between sessions"""
    if bytecode:
        env = dict(env or {}, PYTHONDONTWRITEBYTECODE="")
    else:
        for pc in directory.rglob("__pycache__"):
            shutil.rmtree(pc, ignore_errors=True)
    junit = directory / ".vf-junit.xml"
    if junit.exists():
        junit.unlink()
    cmd = ["/venv/bin/python", "-m", "pytest", "-p", "no:cacheprovider", "-rA",
           f"--junitxml={junit}", "-o", "junit_family=xunit1"]
    if plugins_off:
        for p in ("benchmark", "cov", "asyncio", "freezer", "pytest_mock", "rerunfailures",
                  "subtests", "timeout", "hypothesispytest"):
            cmd += ["-p", f"no:{p}"]
    cmd += list(args)
    r = subprocess.run(cmd, cwd=directory, capture_output=True, env=base_env(env, hashseed),
                       input=stdin, timeout=timeout)
    res = PytestResult()
    res.returncode = r.returncode
    res.stdout = r.stdout.decode("utf-8", "replace")
    res.stderr = r.stderr.decode("utf-8", "replace")
    res.outcomes = _parse_junit(junit)
    if junit.exists():
        junit.unlink()
    res.report = extract_report(res.stdout)
    res.files_after = read_files(directory)
    res.all_after = read_files(directory, suffixes=None)
    return res


def make_project(files: dict, pyproject: str | None = DEFAULT_PYPROJECT) -> Path:
    d = fresh_dir("s")
    write_files(d, files)
    if pyproject is not None and "pyproject.toml" not in files:
        (d / "pyproject.toml").write_text(pyproject)
    return d
