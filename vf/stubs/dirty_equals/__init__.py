"""15-line stand-in for the dirty-equals package (not installed in this sandbox).

inline-snapshot only consults `dirty_equals.DirtyEquals` (isinstance / issubclass) to decide
that an expression is user controlled; the three matchers below are enough to drive that
branch.  The `t` keyword only makes every source expression textually unique."""


class DirtyEquals:
    def __init__(self, t=None):
        self.t = t

    def __repr__(self):
        return f"{type(self).__name__}(t={self.t!r})"

    def __eq__(self, other):
        return self.matches(other)

    def __ne__(self, other):
        return not self.matches(other)

    __hash__ = None


class IsInt(DirtyEquals):
    def matches(self, other):
        return type(other) is int


class IsStr(DirtyEquals):
    def matches(self, other):
        return type(other) is str


class AnyThing(DirtyEquals):
    def matches(self, other):
        return True
