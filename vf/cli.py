import argparse
import json
import os
import sys

from . import runner


def main(argv=None):
    ap = argparse.ArgumentParser(prog="check")
    ap.add_argument("property")
    ap.add_argument("--tier", default=os.environ.get("VERIF_TIER", "quick"),
                    choices=["quick", "thorough"])
    ap.add_argument("--replay")
    ap.add_argument("--arms", default=None)
    ap.add_argument("--seed", type=int, default=None)
    args = ap.parse_args(argv)
    seed = args.seed if args.seed is not None else int(os.environ.get("VERIF_SEED", "1") or 1)
    prop = args.property.upper()

    if args.replay:
        runner.assert_repo()
        mod = runner.load_prop(prop)
        rec = json.loads(open(args.replay).read())
        os.environ["VF_VERBOSE"] = "1"
        v = runner.replay_case(mod, rec["arm"], rec["case"])
        if v is None:
            print(f"replay {args.replay}: property held")
            return 0
        print(f"VIOLATION property={prop} replay={args.replay}")
        print(f"  {v.kind}: {v.message}")
        return 1

    arms = args.arms.split(",") if args.arms else None
    return runner.run_property(prop, args.tier, seed, arms)


if __name__ == "__main__":
    sys.exit(main())
