#!/bin/bash
# usage: tools/try_seed.sh <repo-tree-with-change> <ID> [<ID> ...]     (VERIF_TIER, VERIF_SEED respected)
# runs the given checks against another source tree and prints their verdict lines; violation replay
# files written by these runs are removed again (they belong to the changed tree, not to /repo).
TREE="$1"; shift
for id in "$@"; do
  out=$(VERIF_REPO="$TREE" ./check "$id" --tier "${VERIF_TIER:-quick}" 2>&1)
  echo "$out" | grep -E "^VIOLATION|^  arm=|^  regression|HARNESS-ERROR|exit=" | cut -c1-260
  rm -f replays/"$id"/viol-*.json
done
