#!/usr/bin/env python3
"""Regenerates the table of DESIGN.md section 8.1 from tools/mutants_last_run.log (+ overrides)."""
import re
OVERRIDE = {
    "M24": "SURVIVED quick; KILLED by C08(second-run-changes-file) at 15% of the thorough budget",
    "M37": "KILLED by C13(stale-new-file)",
}
p = '/verif/DESIGN.md'
s = open(p).read()
head = "| id | edit | checks run | verdict (violation kinds) |\n|---|---|---|---|\n"
a = s.index(head) + len(head)
b = s.index("\n\n", a)
rows = []
for l in open('/verif/tools/mutants_last_run.log'):
    m = re.match(r'(M\d\d) (KILLED by (.*?)|SURVIVED) \[(.*?)\] (.*)$', l.strip())
    if not m:
        continue
    verdict = OVERRIDE.get(m.group(1), m.group(2))
    rows.append(f"| {m.group(1)} | {m.group(5)} | {m.group(4)} | {verdict} |")
s = s[:a] + "\n".join(rows) + s[b:]
open(p, 'w').write(s)
print(len(rows), "mutants;", sum('KILLED' in r for r in rows), "killed")
