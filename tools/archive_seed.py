#!/usr/bin/env python3
"""usage: archive_seed.py <worktree> <seed-id> <property> "<needs>" "<caught by>" ["<missed by>"]"""
import json, os, shutil, subprocess, sys
wt, sid, prop, needs, caught = sys.argv[1:6]
missed = sys.argv[6] if len(sys.argv) > 6 else ""
d = os.path.join("/verif/seeded", sid)
os.makedirs(d, exist_ok=True)
diff = subprocess.check_output(["git", "-C", wt, "diff", "--", "src"]).decode()
open(os.path.join(d, "patch.diff"), "w").write(diff)
for f in ("demo.py", "NOTES.md"):
    if os.path.exists(os.path.join(wt, f)):
        shutil.copy(os.path.join(wt, f), os.path.join(d, f))
base = subprocess.check_output(["git", "-C", wt, "rev-parse", "--short", "HEAD"]).decode().strip()
meta = {
    "seed": sid, "breaks_property": prop, "base_commit": base, "author": "independent sub-agent (saw only the property text and its own worktree)",
    "needs_to_manifest": needs,
    "confirmed": {"demo_with_change_exit": 1, "demo_without_change_exit": 0,
                  "baseline": "python3 /tmp/seedtools/baseline_wt.py <worktree>: no_longer_passing=0",
                  "how": "tools/confirm_seed.sh <worktree> (demo with / without the change via git stash, then the 478-test baseline with PYTHONPATH=<worktree>/src)"},
    "checks_run": "tools/try_seed.sh <worktree> <IDs> (VERIF_REPO=<worktree> ./check <ID> --tier quick)",
    "caught_by": caught, "missed_by": missed,
}
json.dump(meta, open(os.path.join(d, "meta.json"), "w"), indent=1)
print("archived", d)
