#!/usr/bin/env python3
"""Planted faults (DESIGN.md 3.8): one-line edits of a scratch copy of /repo/src, each run against the
checks that should notice it.

usage: tools/mutants.py [--baseline] [--only M03,M07] [--tier quick]
Prints one line per mutant: id, checks run, KILLED by <ids> | SURVIVED, and (with --baseline) whether the
478 baseline tests still pass with the mutant.  Scratch copies live under $TMPDIR and are removed."""
import os
import shutil
import subprocess
import sys
import tempfile

HERE = os.path.dirname(os.path.dirname(os.path.abspath(__file__)))
S = "src/inline_snapshot/"

# (id, file, old text, new text, checks that should kill it, note)
MUTANTS = [
    ("M01", S + "_adapter/sequence_adapter.py", 'seq = repr(value[0]) + ","', 'seq = repr(value[0])', ["C01", "C02"],
     "1-tuple written without its comma"),
    ("M02", S + "_code_repr.py", "    if not is_sorted:\n        set_values = sorted(set_values)", "    if False:\n        set_values = sorted(set_values)", ["C16"],
     "no repr fallback sort for unorderable set members"),
    ("M03", S + "_code_repr.py", "    return value.__qualname__", "    return value.__name__", ["C01"],
     "nested class written by __name__"),
    ("M04", S + "pytest_plugin.py", '                    if used_hasrepr(tree):\n                        required_imports.append("HasRepr")', '                    if False:\n                        required_imports.append("HasRepr")', ["C01", "C19"],
     "plugin does not add the HasRepr import"),
    ("M05", S + "_change.py", "        if elements == 1 and isinstance(parent, ast.Tuple):", "        if False:", ["C02", "C11"],
     "no trailing comma when a tuple shrinks to one element"),
    ("M06", S + "_adapter/dict_adapter.py", "            if key not in new_value:\n                # delete entries\n                yield Delete(\"fix\"", "            if False:\n                # delete entries\n                yield Delete(\"fix\"", ["C02", "C05"],
     "vanished dict keys are not deleted"),
    ("M07", S + "_snapshot/generic_value.py", "        if flags.fix or flags.create or flags.update or self._old_value is undefined:\n            return new_result", "        if flags.create or flags.update or self._old_value is undefined:\n            return new_result", ["C02", "C09"],
     "fix does not let the comparison succeed: later sites are not reached"),
    ("M08", S + "_rewrite_code.py", "        return line_numbers.line_to_offset(self.lineno, self.col_offset)", "        return line_numbers.from_utf8_col(self.lineno, self.col_offset) + line_numbers.line_to_offset(self.lineno, 0)", ["C03"],
     "columns treated as utf8 byte columns"),
    ("M09", S + "_rewrite_code.py", "        format_whole_file = enforce_formatting() or code == format_code(\n            code, self.filename\n        )", "        format_whole_file = True", ["C03", "C20"],
     "always format the whole file"),
    ("M10", S + "pytest_plugin.py", '            if "review" in state().flags:\n                result = Confirm.ask(', '            if "review" in state().flags:\n                return True\n                result = Confirm.ask(', ["C04"],
     "review approves without asking"),
    ("M11", S + "pytest_plugin.py", '    if env_var in os.environ:', '    if env_var in os.environ and config.option.inline_snapshot is not None:', ["C04"],
     "env var default flags only read when a CLI option is given"),
    ("M12", S + "pytest_plugin.py", '            if "short-report" in state().flags:\n', '            if "short-report" in state().flags and not (state().flags & categories):\n', ["C04"],
     "short-report combined with categories applies them"),
    ("M13", S + "pytest_plugin.py", "        and config.option.numprocesses != 0\n", "", ["C04"],
     "-n 0 treated as xdist running"),
    ("M14", S + "pytest_plugin.py", "    if is_xfail(request):", "    if False and is_xfail(request):", ["C06", "C04"],
     "snapshots not disabled in xfail tests"),
    ("M15", S + "_snapshot/min_max_value.py", '        if not cmp(self._old_value, self._new_value):\n            flag = "fix"\n        elif not cmp(self._new_value, self._old_value):\n            flag = "trim"', '        if not cmp(self._old_value, self._new_value):\n            flag = "trim"\n        elif not cmp(self._new_value, self._old_value):\n            flag = "fix"', ["C05", "C04"],
     "fix and trim swapped for bounds"),
    ("M16", S + "_snapshot/collection_value.py", '                yield Delete(\n                    flag="trim",', '                yield Delete(\n                    flag="fix",', ["C05", "C09"],
     "unused members removed under fix"),
    ("M17", S + "_snapshot/dict_value.py", '            yield DictInsert(\n                "create",', '            yield DictInsert(\n                "fix",', ["C05"],
     "new sub-snapshot keys inserted under fix"),
    ("M18", S + "_snapshot/min_max_value.py", "    def cmp(a, b):\n        return a >= b", "    def cmp(a, b):\n        return a > b", ["C05", "C06", "C01"],
     "MaxValue strict comparison"),
    ("M19", S + "_snapshot/generic_value.py", "            return new_result\n        return result", "            return new_result\n        return new_result if self._new_value is not undefined else result", ["C06", "C07"],
     "_return answers for the new value without flags"),
    ("M20", S + "_unmanaged.py", "        return self.value == other", "        return self.value is other", ["C06", "C10"],
     "Unmanaged compares by identity"),
    ("M21", S + "_snapshot/generic_value.py", "        if not result:\n            state().incorrect_values += 1", "        if not result and not state().update_flags.fix:\n            state().incorrect_values += 1", ["C07"],
     "incorrect values not counted under fix"),
    ("M22", S + "_snapshot/dict_value.py", "            if old_value is undefined:\n                state().missing_values += 1\n                old_value = {}", "            if old_value is undefined:\n                old_value = {}", ["C07"],
     "empty sub-snapshot root not counted as missing"),
    ("M23", S + "pytest_plugin.py", "    if missing_values != 0:", "    if missing_values != 0 and not state().update_flags.create:", ["C07"],
     "missing values ignored when create is given"),
    ("M24", S + "_utils.py", 'and self.string.replace("\'", \'"\') == other.string.replace("\'", \'"\')', "and self.string == other.string", ["C08"],
     "quote-sensitive token comparison (endless update)"),
    ("M25", S + "_utils.py", "    return skip_trailing_comma(normalize_strings(token_sequence))", "    return normalize_strings(token_sequence)", ["C08"],
     "trailing commas count as a change"),
    ("M26", S + "_change.py", "            to_insert = {\n                change.position: change.new_code\n                for change in changes\n                if isinstance(change, ListInsert)\n            }", "            to_insert = {\n                change.position: change.new_code\n                for change in reversed(changes)\n                if isinstance(change, ListInsert)\n            }", ["C09", "C02"],
     "list inserts at one position overwrite each other in reversed order"),
    ("M27", S + "_adapter/value_adapter.py", "        if isinstance(old_value, Unmanaged):\n            return old_value", "        if False:\n            return old_value", ["C10"],
     "Unmanaged values are replaced"),
    ("M28", S + "_adapter/value_adapter.py", "        if isinstance(old_node, ast.JoinedStr):", "        if False:", ["C10"],
     "f-strings are replaced"),
    ("M29", S + "_adapter/sequence_adapter.py", "                if isinstance(e, ast.Starred):", "                if False:", ["C10"],
     "star-expressions in sequences ignored"),
    ("M30", S + "_unmanaged.py", "    if is_unmanaged(value):\n        return Unmanaged(value)\n    else:\n        return value", "    return value", ["C10", "C06"],
     "map_unmanaged is the identity"),
    ("M31", S + "_align.py", "            new_line.append(max(values))", "            new_line.append(max(values, key=lambda v: (v[0], v[1] != 'm')))", ["C11"],
     "alignment prefers non-matches on ties"),
    ("M32", S + "_align.py", "    diff = nw_align(seq_a[start : len(seq_a) - end], seq_b[start : len(seq_b) - end])", "    diff = nw_align(seq_a[start : len(seq_a) - end + 1], seq_b[start : len(seq_b) - end + 1]) if end else nw_align(seq_a[start:], seq_b[start:])\n    end = max(0, end - 1)", ["C11"],
     "suffix stripping off by one"),
    ("M33", S + "_adapter/value_adapter.py", "            # equal and equal repr\n            return old_value", '            # equal and equal repr\n            if old_node is None:\n                return old_value\n            flag = "fix"', ["C11", "C05"],
     "equal values are regenerated under fix"),
    ("M34", S + "_utils.py", '    string = string.replace(" \\n", " \\\\n\\\\\\n")', "    pass", ["C12"],
     "trailing blank before a line end not protected in triple-quoted strings"),
    ("M35", S + "_utils.py", '                ("\\n" in s and s[-1] != "\\n") or s.count("\\n") > 1', '                "\\n" in s', ["C12", "C08"],
     "every string with a newline is triple-quoted"),
    ("M36", S + "_external.py", '        path = hash + "-new" + suffix', "        path = hash + suffix", ["C13"],
     "outsource saves without the -new marker"),
    ("M37", S + "_external.py", '        for file in self.directory.glob("*-new.*"):\n            file.unlink()', '        for file in self.directory.glob("*-new.*"):\n            pass', ["C13"],
     "prune_new_files is a no-op"),
    ("M38", S + "_external.py", "        if len(files) > 1:\n            raise HashError", "        if False:\n            raise HashError", ["C13"],
     "ambiguous prefix resolves to the first match"),
    ("M39", S + "_find_external.py", "    for filename in state().files_with_snapshots:", "    import glob\n    for filename in list(state().files_with_snapshots)[:1]:", ["C13"],
     "unused externals computed from one participating file only"),
    ("M40", S + "_inline_snapshot.py", "    key = id(frame.f_code), frame.f_lasti", "    key = id(frame.f_code), frame.f_lineno", ["C14"],
     "call sites keyed by line"),
    ("M41", S + "_snapshot/min_max_value.py", "        elif not self.cmp(self._new_value, other):\n            self._new_value = clone(other)", "        else:\n            self._new_value = clone(other)", ["C14", "C05"],
     "bound overwritten by the last observation"),
    ("M42", S + "_snapshot/collection_value.py", "            if item not in self._new_value:\n                self._new_value.append(clone(item))", "            self._new_value = [clone(item)]", ["C14", "C05"],
     "members replaced on each evaluation"),
    ("M43", S + "pytest_plugin.py", "                    for external_name in used:\n                        state().storage.persist(external_name)\n\n                cr.fix_all()", "                cr.fix_all()\n                for test_file in cr.files():\n                    for external_name in used_externals(ast.parse(test_file.new_code())):\n                        state().storage.persist(external_name)", ["C15"],
     "externals persisted after the files are written"),
    ("M44", S + "_format.py", "            )\n            return text\n        formatted = result.stdout.decode(\"utf-8\")", "            )\n        formatted = result.stdout.decode(\"utf-8\")", ["C15"],
     "format-command failure returns its (empty) stdout"),
    ("M45", S + "_rewrite_code.py", "            os.replace(tmp_filename, filename)", "            shutil.copyfile(tmp_filename, filename)", ["C15"],
     "non atomic final copy (still ok unless the copy faults)"),
    ("M46", S + "_code_repr.py", "    set_values = sorted(set_values, key=repr)\n", "", ["C16"],
     "no hash-independent pre-sort of set members"),
    ("M47", S + "_snapshot/generic_value.py", "    new = copy.deepcopy(obj)", "    new = obj", ["C17"],
     "clone is the identity"),
    ("M48", S + "_snapshot/collection_value.py", "            self._new_value = [clone(item)]", "            self._new_value = [item]", ["C17"],
     "first member stored without copy"),
    ("M49", S + "_snapshot/generic_value.py", "    if not obj == new:", "    if False:", ["C17"],
     "copy equality check skipped"),
    ("M50", S + "_snapshot/eq_value.py", "        return iter(getattr(self, \"_changes\", []))", "        return iter(self._changes)", ["C18", "C10"],
     "F7 reintroduced"),
    ("M51", S + "_change.py", "        if change.node is None or not inside_removed_code(change, removed_nodes)", "        if True", ["C18", "C10"],
     "F9 reintroduced"),
    ("M52", S + "testing/_example.py", "                        if change.flag in state.update_flags.to_set()", "                        if True", ["C19"],
     "run_inline applies all changes"),
    ("M53", S + "testing/_example.py", '            command_env.pop("CI", None)', '            pass', ["C19"],
     "run_pytest keeps CI (only visible when CI is set)"),
    ("M54", S + "_format.py", '            mode.line_length = int(config["line_length"])', "            pass", ["C20"],
     "black line length ignored"),
    ("M55", S + "_format.py", '            mode.magic_trailing_comma = not config["skip_magic_trailing_comma"]', '            mode.magic_trailing_comma = config["skip_magic_trailing_comma"]', ["C20"],
     "magic trailing comma inverted"),
]


def main():
    args = sys.argv[1:]
    only = None
    if "--only" in args:
        only = set(args[args.index("--only") + 1].split(","))
    tier = args[args.index("--tier") + 1] if "--tier" in args else "quick"
    base = "--baseline" in args
    for mid, path, old, new, checks, note in MUTANTS:
        if only and mid not in only:
            continue
        d = tempfile.mkdtemp(prefix=f"mut_{mid}_")
        try:
            shutil.copytree("/repo/src", d + "/src")
            for extra in ("tests", "conftest.py", "pyproject.toml", "docs", "README.md", "CHANGELOG.md", "CONTRIBUTING.md", "testing"):
                pass
            p = os.path.join(d, path)
            s = open(p).read()
            if old not in s:
                print(f"{mid} NOT-APPLICABLE (pattern not found in {path})", flush=True)
                continue
            open(p, "w").write(s.replace(old, new, 1))
            r = subprocess.run(["/venv/bin/python", "-c", "import inline_snapshot, inline_snapshot.testing, inline_snapshot.pytest_plugin"],
                               env=dict(os.environ, PYTHONPATH=d + "/src"), capture_output=True, text=True)
            if r.returncode != 0:
                print(f"{mid} DOES-NOT-IMPORT {r.stderr[-300:]!r}", flush=True)
                continue
            killed = []
            for c in checks:
                out = subprocess.run([os.path.join(HERE, "check"), c, "--tier", tier], cwd=HERE,
                                     env=dict(os.environ, VERIF_REPO=d), capture_output=True, text=True)
                subprocess.run(f"rm -f {HERE}/replays/{c}/viol-*.json", shell=True)
                if out.returncode == 1 and "VIOLATION" in out.stdout:
                    kinds = sorted({l.split()[1] for l in out.stdout.splitlines() if l.startswith("  arm=")})
                    killed.append(f"{c}({','.join(k.split(':')[0] for k in kinds)[:60]})")
                elif out.returncode not in (0, 1):
                    killed.append(f"{c}(HARNESS rc={out.returncode})")
            b = ""
            if base:
                # baseline needs the whole tree: run the suite of /repo with the mutated src in front
                cmd = ["/venv/bin/python", "-m", "pytest", "-q", "-p", "no:cacheprovider", "-n", "8", "-x", "--timeout=900"]
                rb = subprocess.run(cmd, cwd="/repo", env=dict(os.environ, PYTHONPATH=d + "/src"), capture_output=True, text=True)
                tail = rb.stdout.strip().splitlines()[-1] if rb.stdout.strip() else ""
                b = f" | suite: {tail[:80]}"
            print(f"{mid} {'KILLED by ' + ' '.join(killed) if killed else 'SURVIVED'} [{','.join(checks)}] {note}{b}", flush=True)
        finally:
            shutil.rmtree(d, ignore_errors=True)


if __name__ == "__main__":
    main()
