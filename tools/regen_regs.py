#!/usr/bin/env python3
"""For every archived seeded change: apply it to a scratch worktree of /repo HEAD, run the checks that catch
it, and keep the (shrunk) violating inputs as replays/<ID>/reg-<seed>.json - provided they hold on /repo.
These are the seconds-long replay tier every check starts with."""
import glob, json, os, re, shutil, subprocess, sys
HERE = "/verif"
only = set(sys.argv[1:])
for d in sorted(glob.glob(HERE + "/seeded/*")):
    sid = os.path.basename(d)
    if only and sid.split("-")[0] not in only:
        continue
    meta = json.load(open(d + "/meta.json"))
    ids = sorted(set(re.findall(r"C\d\d", meta["caught_by"])))
    wt = f"/tmp/regs_{sid}"
    subprocess.run(["git", "-C", "/repo", "worktree", "add", "-q", "--detach", wt, "HEAD"], check=True)
    try:
        r = subprocess.run(["git", "-C", wt, "apply", d + "/patch.diff"], capture_output=True, text=True)
        if r.returncode != 0:
            print(sid, "PATCH DOES NOT APPLY to HEAD:", r.stderr.strip()[:200])
            continue
        for cid in ids:
            for f in glob.glob(f"{HERE}/replays/{cid}/viol-*.json"):
                os.unlink(f)
            subprocess.run([HERE + "/check", cid, "--tier", "quick"], cwd=HERE, env=dict(os.environ, VERIF_REPO=wt),
                           capture_output=True, text=True)
            kept = 0
            for n, f in enumerate(sorted(glob.glob(f"{HERE}/replays/{cid}/viol-*.json"))):
                rec = json.load(open(f))
                os.unlink(f)
                if kept >= 2:
                    continue
                target = f"{HERE}/replays/{cid}/reg-{sid.split('-')[0]}-{kept}.json"
                json.dump(rec, open(target, "w"), indent=1, sort_keys=True)
                # must hold on the unchanged tree
                rr = subprocess.run([HERE + "/check", cid, "--replay", target], cwd=HERE, capture_output=True, text=True)
                if rr.returncode != 0:
                    os.unlink(target)
                    print(sid, cid, "input also fails on /repo -> not kept", rr.stdout[:200].replace("\n", " "))
                else:
                    kept += 1
            print(sid, cid, "kept", kept)
    finally:
        subprocess.run(["git", "-C", "/repo", "worktree", "remove", "--force", wt])
