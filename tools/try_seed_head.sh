#!/bin/bash
# usage: tools/try_seed_head.sh <dir with patch.diff> <ID>...   -- applies the patch to a fresh worktree of /repo HEAD
# (seeds delivered against an older HEAD would otherwise also show the defects repaired since then)
set -u
SRC="$1"; shift
WT="/tmp/tsh_$(basename "$SRC")_$$"
git -C /repo worktree add -q --detach "$WT" HEAD || exit 2
if ! git -C "$WT" apply "$SRC/patch.diff"; then echo "PATCH DOES NOT APPLY to HEAD"; git -C /repo worktree remove --force "$WT"; exit 2; fi
for id in "$@"; do
  rm -f /verif/replays/$id/viol-*.json
  VERIF_REPO="$WT" /verif/check "$id" --tier quick 2>&1 | grep -E "VIOLATION|  arm=|HARNESS|exit=" | cut -c1-400
done
git -C /repo worktree remove --force "$WT"
