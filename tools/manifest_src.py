NOTES = ("All checks: ./check <ID> --tier quick|thorough, VERIF_SEED respected, evidence rewritten on every run. "
         "fix: commits in /repo are listed in known_findings.json as fixed entries.")
NOT_APPLICABLE = {}
CHECKS = {
 "C15": {
  "level": "fault_enumeration",
  "technique": "fault injection with exhaustive enumeration of every recorded boundary call x applicable fault kind per Hypothesis-generated project (trace run, then one faulted real pytest session per point)",
  "text": "For each generated project a trace run records all calls at 10 boundaries (black, format-command, read, ensure_import, persist, rename, open, write, close, replace, new_code) during tests and session finish; every (call index, fault kind) pair is then injected in its own session from a pristine copy. Projects contain non-ASCII text and the formatter fault kinds include correct output in a non-utf-8 encoding. Files must be previous or complete new content (or, after formatter faults, correct code with the syntax tree of the un-faulted result), always parse, never be a prefix; formatter failures must be reported; after pruning -new files every external reference must resolve. Fault enumeration: exhaustive over the recorded trace of each project.",
  "note": "faults are exceptions / bad return values at python call boundaries and prefix writes, injected by a harness-side pytest plugin; real process kills and kernel-level atomicity are not modelled",
 },
 "C13": {
  "technique": "Hypothesis model-based testing of generated histories (edit / add / remove / unreference / session steps as one shrinkable value) against a reference map of the storage, each session a real pytest process; plus a Hypothesis arm on the storage lookup API",
  "text": "Histories of 3-10 steps over a project (hash-length 1..64, three storage-dir settings, two files, colliding hash prefixes) are executed with real sessions (category subsets, report, review with answers, inactive sessions under disable / CI, single-file sessions); after every session the storage listing and the references in the files are checked against five invariants (name = sha256 of content, persisted only with a written reference, no stale -new file, removal only by approved trim of an unreferenced file, a written reference resolves to one persisted file with the outsourced bytes). The API arm checks that 0 or >1 prefix matches raise HashError. Exploration.",
  "note": "crashes of the process itself are the subject of C15; the model is a dict name -> bytes plus per-session reference sets",
 },
 "C04": {
  "technique": "Hypothesis property-based testing over real pytest sessions with an independent flag-resolution model (from the docs), a differential against a plain-flags reference session, the category model for values, plus an exhaustive 16 x 5 flag/mode grid",
  "text": "Generated configurations (CLI, shortcuts incl. user-defined, env var, pyproject defaults, the remaining options at their documented default values, tty, CI variables, PYCHARM_HOSTED, xdist -n 2 / -n 0, review answers, xfail markers) x generated programs with an external site and an unreferenced persisted external; sessions that approve nothing must leave test files and persisted externals byte-identical, usage errors exit 4, approved sets must give exactly the files of a plain --inline-snapshot=<F> reference run and the values of the category model. The 80-cell subset x mode grid is enumerated exhaustively on a fixed six-site program. Exploration.",
  "note": "tty approximated by FORCE_COLOR; review answers are mapped to categories through the prompts actually printed; -new storage files and the storage .gitignore are not protected objects",
 },
 "C07": {
  "technique": "Hypothesis property-based testing over real pytest subprocess sessions; oracle from junit outcomes and exit status against generator-assigned site statuses, executed sites observed through side-file markers",
  "text": "Generated files (1-4 tests x 1-4 sites, statuses ok/wrong/missing, five operations, loops with a late wrong iteration - for == too: the source value matches the first evaluations -, shared module-level sites, parametrized tests, conditional inner snapshots) are run with every flag combination (category subsets alone or with report/review/short-report, no flags, disable); a test that executed a bad site must be failed/errored with non-zero exit status, all others passed. Exploration.",
  "note": "which sites a test executed is observed (markers), not modelled; module-level empty snapshots are outside the property's scope",
 },
 "C19": {
  "technique": "Hypothesis-generated three-way differential testing: Example.run_inline vs Example.run_pytest vs a real `python -m pytest` session on identical generated projects",
  "text": "Generated projects (1-2 files, all operations, noisy previous values, failing and raising tests before and after the others, bounds that cannot be ordered against the observed value, HasRepr values, several categories pending in one container) are run through the two public helpers and a real session with every category subset; changed files must be identical across the three and the reported categories must match the sections of a real report session with the same flags. Exploration.",
  "note": "projects stay inside what run_inline documents (module-level test functions, no externals); update is compared only where the plugin shows a non-empty diff",
 },
 "C18": {
  "technique": "Hypothesis property-based testing / robustness fuzzing of generated test modules built from adversarial fragments, with a crash-freedom and non-overlap oracle on both drivers",
  "text": "Modules assembled from 17 fragment kinds (unusual spellings of the call and of hand-written values, star-expressions, values given by a name, unix / dos / mixed line endings, failing and raising tests, nested snapshots replaced / shifted / only aligned, raising comparisons, unused and half-used sites, two operations on one site, changing nested structure) are run with every approved set; collecting, applying and writing must not raise, recorded replacements must be pairwise disjoint, results must parse; real sessions (started in the project, its parent or a sibling directory, or reaching the file through a symlink; with outsourced values) must end without INTERNALERROR or traceback and with exit status 0/1. Exploration.",
  "note": "fragments stay inside documented usage (`in` on lists, [key] on dict displays); the non-overlap check is made on the recorder independently of the internal assert",
 },
 "C10": {
  "technique": "Hypothesis property-based testing of generated containers mixing managed and user-controlled expressions; oracle = textual tracing of uniquely tagged user-controlled segments plus a value-level alignment model for the cases the property decides",
  "text": "Containers (list, tuple, dict, dataclass/attrs/namedtuple calls, nested) mixing managed elements with Is(), f-strings, inner snapshots, dirty-equals stand-ins and star-expressions are run with every approved set; each user-controlled segment must appear verbatim at most once and in order, must survive under surviving keys, in the equal common prefix/suffix and under the replacement rule, star containers keep their text, managed siblings are repaired; the comparison runs once, twice (re-evaluated argument) or never (only update may touch the text, never a user-controlled part); sibling values collide on purpose; a second arm checks that `snapshot({**d, ...})[key]` leaves the display alone. Exploration.",
  "note": "dirty-equals is replaced by a 30-line stand-in package (only DirtyEquals is consulted by the code under test); tie-breaks of the alignment are not modelled, only the decidable cases are demanded",
 },
 "C20": {
  "technique": "Hypothesis property-based testing with an independent formatter oracle (the harness invokes black with a Mode it builds itself from the generated pyproject options) and an idempotence side-check that attributes instabilities to the formatter",
  "text": "Generated clean files (optionally holding code whose layout depends on the python versions black infers) under generated [tool.black] options receive change sets that force re-wrapping; the result must be a fixed point of black under the same options, unless black itself is not idempotent on the text handed to the whole-file step (captured), which is counted separately. Unclean files must not be re-formatted as a whole (bytes outside all arguments unchanged). Black runs through its API or as a format-command (quiet, or also writing to stderr). A real-session arm starts pytest in the parent or in a sibling directory of the project, or in a workspace whose root pyproject.toml configures black. Exploration.",
  "note": "black 26.5.1; the in-process driver runs with the project directory as cwd like pytest does (black resolves its configuration from the cwd)",
 },
 "C03": {
  "technique": "Hypothesis property-based testing with a masked byte-equality / masked syntax-tree oracle over generated adversarial layouts",
  "text": "Generated programs are decorated outside the arguments (non-ASCII text left of the call, unix / dos / classic-mac / mixed line endings, `;`-joined sites, nested calls, decorators, `snapshot(` inside strings and comments, tabs, CRLF, clean/unclean, black / no black / format-command) and run with any of the 16 approved sets; everything outside the argument spans of the sites that the category model allows to change must be byte-identical (or tree-identical when whole-file formatting applies), up to the documented import lines. A real-session arm over several files varies the layout of the last top-level import (multi-line, backslash, `;`, comment, try block) below which the import is added. Exploration.",
  "note": "python's ast is trusted to locate call parentheses; which sites may change comes from the independent category model (all sites when update is approved)",
 },
 "C16": {
  "technique": "generated-input differential testing across separate interpreter processes (PYTHONHASHSEED x formatter configuration x set construction history); batch generated with Hypothesis",
  "text": "A Hypothesis-generated batch of set/frozenset/dict-rich values (incl. list / set / frozenset subclasses) and of strings with blanks / quotes at their ends is created (or fixed in a snapshot holding another value of the same shape) by one interpreter process per (hash seed, formatter) cell, each value in three construction histories; every sixth case is a dict with several str keys that a [key] snapshot holding one key gains in one session; texts must be byte-identical across seeds and histories and have the same syntax tree and value across black / no black / format-command. Exploration.",
  "note": "hash seeds 0-5 and two random ones, four formatter configurations, black 26.5.1 only; dict insertion order is treated as part of the value",
 },
 "C14": {
  "technique": "Hypothesis property-based testing of generated multi-site programs with scripted interleavings against an independent per-site aggregation; per-site disjoint value ranges make leakage visible",
  "text": "3-12 sites in 7 placement styles (incl. two calls on one line, lambdas on one line, helpers, comprehensions, module-level names shared by tests, objects compared only after the call was evaluated again, two files) are evaluated in a generated interleaving; after create and after a second fix+trim session every site must hold exactly the aggregation of its own observations and nothing outside its value range. An arm over conditional inner snapshot() calls checks that every inner call ends with the value of its own branch. A further arm changes the hand-written argument between evaluations (also to an equal value of a subclass type) and demands UsageError; a third runs parametrized and shared-site tests in real pytest sessions. Exploration.",
  "note": "id(code) reuse after garbage collection cannot be forced from a test program and is not covered",
 },
 "C17": {
  "technique": "Hypothesis property-based testing of mutation schedules against an aliasing-free model (the harness replays the schedule on its own objects and deep-copies at comparison time)",
  "text": "Generated schedules interleave comparisons on 1-3 sites with mutations (append, clear, item/attribute assignment, nested) of 1-3 shared mutable variables (lists, dicts, sets, dataclass / attrs / pydantic instances, tuples and namedtuples holding lists); the values in the rewritten file after create, and after a second fix+trim session on a changed schedule, must equal the aggregation of the harness-recorded copies; values whose deep copy differs (identity eq, lossy __deepcopy__, also nested; values that deepcopy returns unchanged but that are not equal to themselves such as nan) must raise UsageError, also against a snapshot that already holds a value; a value for which deepcopy raises must never be recorded in its later, mutated state; and leave the site unwritten. Exploration.",
  "note": "== sites only see equal values by construction; the category model of C05 aggregates the recorded copies",
 },
 "C06": {
  "technique": "Hypothesis differential testing: the same generated module executed with inline-snapshot active (no flags) and with snapshot/Is replaced by the identity; plus real pytest sessions for the disabled modes",
  "text": "Sequences of 1-8 comparisons (all supported forms, both operand orders, sub-snapshot access, re-evaluation through a function, Is()/inner snapshot wrappers) are logged in both executions and must agree outcome by outcome; a comparison with a different operation than the first must log TypeError. A conditional arm re-evaluates one == site whose user-controlled parts change per evaluation (conditional inner snapshots, Is(ALT[c]), with and without star-expressions) against the plain values. Real sessions check `snapshot(v) is v` under disable / CI / xdist / xfail and equality of pass/fail vectors with and without --inline-snapshot=disable. Exploration.",
  "note": "user-controlled wrappers only in ==-compared positions (as documented); comparisons that raise on the plain value end the checked prefix of a sequence",
 },
 "C09": {
  "technique": "Hypothesis property-based testing with exhaustive enumeration of all k! approval orders per generated program (metamorphic: any order == all-at-once, compared as syntax trees)",
  "text": "For every generated program with k >= 2 pending categories every permutation of single-category sessions and the combined session are run from pristine copies and the final syntax trees compared; recording bodies, plus assert-style bodies for the orders in which no trim-only run can stop at a failing comparison, plus arms for containers with inner snapshots (each element in a state that makes one category pending), for the mixed containers of C10, and real-session arms for the combined run and for added imports. Exploration over programs, exhaustive over orders.",
  "note": "recording bodies (observations independent of comparison answers) as the property's domain requires, asserting bodies only for orders where create/fix/update keep the test running; positional constructor arguments excluded (F14)",
 },
 "C11": {
  "technique": "exhaustive small-scope enumeration and Hypothesis testing of the alignment functions against an independent LCS model; Hypothesis end-to-end testing of text preservation with python's ast as segment oracle",
  "text": "align/add_x are checked on all sequence pairs over 3 symbols up to length 4/5 and on random longer pairs for script validity, optimality (= LCS) and prefix/suffix anchoring; fix-only sessions over noisily rendered containers check recursively that unchanged sub-expressions keep their source text, keyed entries are matched by key and at least LCS-many element texts survive. Exploration (exhaustive for the enumerated sub-space).",
  "note": "element boundaries are taken from python's ast; positional constructor arguments excluded (F14); duplicate keys in displays excluded",
 },
 "C05": {
  "technique": "Hypothesis property-based testing against an independent reference model of the category semantics (written from the documentation), plus a two-session metamorphic arm on tool-written text",
  "text": "Per site the reported categories (create/fix/trim) and the value after the run are compared with a ~100 line reference model written from docs/categories.md for every operation, previous value (noisy text or none), observation sequence (loops, shared module-level sites) and approved subset F; unapproved categories must leave the value untouched (update-only runs never change a value). Exploration.",
  "note": "recording bodies so that observations do not depend on answers; previous texts with positional constructor arguments excluded and counted (known finding F14); `update` itself is about source text and is not predicted by the model",
 },
 "C08": {
  "technique": "Hypothesis property-based testing of run histories (metamorphic: run(F);run(F) must be a fixed point) on the in-process driver and on real pytest session pairs",
  "text": "Generated programs with noisy previous texts are run twice (three times in the thorough arm) with the same approved set; the second run must leave every file byte-identical, after an all-four run nothing may be reported as create/fix/trim and the rewritten tests pass with inline-snapshot inactive; real session pairs additionally check exit status 0 and an empty report; a further arm keeps python's and pytest's bytecode caches between the sessions and approves size-neutral changes (caches are validated by mtime and size). Exploration.",
  "note": "generated tests are deterministic; complex numbers whose python repr does not read back with the same repr (negative zero parts) are excluded as a stated precondition",
 },
 "C02": {
  "technique": "Hypothesis property-based testing: edit-script generated (previous text, new value) pairs, noisy renderer, oracle = re-execution of the rewritten module with inline-snapshot inactive",
  "text": "Generated programs with 1-4 sites whose previous argument is a noisy rendering of an edit-script mutation of the observed value (or missing); one in-process run with create+fix; the rewritten module must pass when re-executed with inline-snapshot inactive and every site argument must satisfy the observed comparisons; a guarded comparison that raises may precede everything; a second arm repairs an outer snapshot whose elements are inner snapshots in every state (empty, wrong, noisy, right); a third runs create,fix in a real pytest session over a file whose new code needs the external / HasRepr imports (with and without external(...) already in the file) and re-runs the project with --inline-snapshot=disable and without flags. Exploration.",
  "note": "no user-controlled parts in the previous text; bounded value size; every noisy rendering is validated by the harness (eval == intended previous value) before use",
 },
 "C01": {
  "technique": "Hypothesis property-based testing of generated programs with a read-back oracle (re-execution with inline-snapshot inactive) on an in-process driver and on real pytest sessions",
  "text": "Generated programs (1-3 empty sites, five operations, six placements, loops, shared module-level sites) over a recursive value universe are created in process and read back by evaluating the written argument in the re-executed module and recomputing the observed comparisons on the plain value; a second arm does it through real pytest sessions (create, then disable) including externals and HasRepr import insertion. Exploration: held on everything generated.",
  "note": "value universe bounded by max_leaves per tier; preconditions v==v, deepcopy(v)==v, ordered families for bounds; python eval is the trusted reader",
 },
 "C12": {
  "technique": "exhaustive small-scope enumeration + Hypothesis property-based testing with a read-back (round-trip) oracle",
  "text": "Every string over a 7-symbol adversarial alphabet up to length 5 (quick) / 7 (thorough) is generated exhaustively and read back with ast.literal_eval; random Unicode/bytes beyond; end-to-end sessions place the string at 12 positions x create/fix/update x 8 formatter configurations and evaluate the rewritten argument. Held-on-everything-explored, not absence.",
  "note": "trusts python's literal evaluation and the installed black 26.5.1; strings longer than the enumerated length are only sampled",
 },
}
