NOTES = ("All checks: ./check <ID> --tier quick|thorough, VERIF_SEED respected, evidence rewritten on every run. "
         "fix: commits in /repo are listed in known_findings.json as fixed entries.")
NOT_APPLICABLE = {}
CHECKS = {
 "C02": {
  "technique": "Hypothesis property-based testing: edit-script generated (previous text, new value) pairs, noisy renderer, oracle = re-execution of the rewritten module with inline-snapshot inactive",
  "text": "Generated programs with 1-4 sites whose previous argument is a noisy rendering of an edit-script mutation of the observed value (or missing); one in-process run with create+fix; the rewritten module must pass when re-executed with inline-snapshot inactive and every site argument must satisfy the observed comparisons. Exploration.",
  "note": "no user-controlled parts in the previous text; bounded value size; every noisy rendering is validated by the harness (eval == intended previous value) before use",
 },
 "C01": {
  "technique": "Hypothesis property-based testing of generated programs with a read-back oracle (re-execution with inline-snapshot inactive) on an in-process driver and on real pytest sessions",
  "text": "Generated programs (1-3 empty sites, five operations, six placements, loops, shared module-level sites) over a recursive value universe are created in process and read back by evaluating the written argument in the re-executed module and recomputing the observed comparisons on the plain value; a second arm does it through real pytest sessions (create, then disable) including externals and HasRepr import insertion. Exploration: held on everything generated.",
  "note": "value universe bounded by max_leaves per tier; preconditions v==v, deepcopy(v)==v, ordered families for bounds; python eval is the trusted reader",
 },
 "C12": {
  "technique": "exhaustive small-scope enumeration + Hypothesis property-based testing with a read-back (round-trip) oracle",
  "text": "Every string over a 7-symbol adversarial alphabet up to length 5 (quick) / 7 (thorough) is generated exhaustively and read back with ast.literal_eval; random Unicode/bytes beyond; end-to-end sessions place the string at 12 positions x create/fix/update x 8 formatter configurations and evaluate the rewritten argument. Held-on-everything-explored, not absence.",
  "note": "trusts python's literal evaluation and the installed black 26.5.1; strings longer than the enumerated length are only sampled",
 },
}
