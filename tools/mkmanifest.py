#!/usr/bin/env python3
"""Regenerates MANIFEST.json from tools/manifest_src.py (single source of truth)."""
import json, sys, os
sys.path.insert(0, os.path.dirname(__file__))
import manifest_src as M
props = [json.loads(l)["id"] for l in open(os.path.join(os.path.dirname(__file__), "..", "properties.jsonl"))]
checks = []
for pid in props:
    if pid in M.CHECKS:
        c = M.CHECKS[pid]
        checks.append({
            "property_id": pid,
            "quick_cmd": f"./check {pid} --tier quick",
            "thorough_cmd": f"./check {pid} --tier thorough",
            "evidence_file": f"/verif/evidence/{pid}.json",
            "replay_cmd_template": f"./check {pid} --replay {{path}}",
            "engine": "vf",
            "level_claimed": {"category": c.get("level", "exploration"), "text": c["text"], "design_ref": f"DESIGN.md section 4/{pid}"},
            "level_note": c["note"],
            "technique": c["technique"],
        })
na = [{"property_id": p, "reason": M.NOT_APPLICABLE.get(p, "no check built yet in this round; see DESIGN.md section 4 for the planned generator and oracle")} for p in props if p not in M.CHECKS]
m = {
    "version": 1,
    "setup_cmd": "./setup.sh",
    "hooks": {"guard": "INLINE_SNAPSHOT_VERIF", "enable": "no source hooks exist; checks import /repo/src directly (PYTHONPATH) and patch from the harness side", "baseline_off_cmd": "python3 tools/baseline.py", "source_commits": [], "add_only": True},
    "engines": [{"name": "vf", "path": "/verif/vf", "serves_properties": sorted(M.CHECKS), "kind_free_text": "Hypothesis-driven property-based testing (strategies, stateful machines, shrinking), exhaustive small-scope enumeration, atheris fuzzing; in-process library driver and real pytest subprocess driver"}],
    "checks": checks,
    "not_applicable": na,
    "notes": M.NOTES,
}
json.dump(m, open(os.path.join(os.path.dirname(__file__), "..", "MANIFEST.json"), "w"), indent=1)
print("checks:", len(checks), "not_applicable:", len(na))
