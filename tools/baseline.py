#!/usr/bin/env python3
"""Run the repository's pinned baseline (guard off) and compare with /root/.vp/BASELINE.json.
usage: baseline.py [-n N]   (N>0 uses xdist for speed; results compared the same way)"""
import json, os, subprocess, sys, tempfile, xml.etree.ElementTree as ET

n = 0
if "-n" in sys.argv:
    n = int(sys.argv[sys.argv.index("-n") + 1])
base = json.load(open("/root/.vp/BASELINE.json"))
out = tempfile.mktemp(suffix=".xml")
cmd = ["/venv/bin/python", "-m", "pytest", "-ra", "-q", "-p", "no:cacheprovider", "--timeout=900",
       "--continue-on-collection-errors", f"--junitxml={out}"]
if n:
    cmd += ["-n", str(n)]
env = dict(os.environ)
env.pop("INLINE_SNAPSHOT_VERIF", None)
env.pop("PYTHONPATH", None)
r = subprocess.run(cmd, cwd="/repo", env=env, capture_output=True, text=True)
passed = set()
for tc in ET.parse(out).getroot().iter("testcase"):
    if not any(ch.tag in ("failure", "error", "skipped") for ch in tc):
        passed.add(f"{tc.get('classname')}::{tc.get('name')}")
os.unlink(out)
missing = sorted(set(base["stable_pass"]) - passed)
print(f"baseline stable={len(base['stable_pass'])} passed_now={len(passed)} missing={len(missing)}")
for m in missing[:40]:
    print("  MISSING", m)
sys.exit(1 if missing else 0)
