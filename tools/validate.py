#!/usr/bin/env python3
import json, sys, glob
import jsonschema
m = json.load(open('/verif/MANIFEST.json'))
jsonschema.validate(m, json.load(open('/root/.vp/MANIFEST.schema.json')))
print("manifest valid")
es = json.load(open('/root/.vp/EVIDENCE.schema.json'))
for c in m["checks"]:
    p = c["evidence_file"]
    try:
        jsonschema.validate(json.load(open(p)), es); print("evidence valid", p)
    except Exception as e:
        print("EVIDENCE INVALID", p, str(e)[:300])
