#!/usr/bin/env python3
"""Regenerates only the findings table of DESIGN.md section 5 from known_findings.json."""
import json
p = '/verif/DESIGN.md'
s = open(p).read()
head = "| id | properties | status | what failed |\n|---|---|---|---|\n"
a = s.index(head) + len(head)
b = s.index("\n\n", a)
rows = []
for f in json.load(open('/verif/known_findings.json'))['findings']:
    if f['status'] == 'fixed':
        what = f['fixed'].split(' ', 3)[3] if f['fixed'].startswith('fixed:') else f['fixed']
        status = "fixed `%s`" % f['commit']
    else:
        what, status = f['what'], "**known**"
    rows.append("| %s | %s | %s | %s |" % (f['id'], ' '.join(f['properties']), status, what.replace('|', '\\|')))
s = s[:a] + "\n".join(rows) + s[b:]
open(p, 'w').write(s)
print(len(rows), "findings")
