#!/bin/bash
# usage: tools/confirm_seed.sh <worktree>   -- confirms a seeded change: demo fails with it, passes without, suite green
WT="$1"
cd "$WT" || exit 2
git diff -- src > patch.diff
echo "== files changed: $(git diff --stat -- src | tail -1)"
PYTHONPATH=$WT/src /venv/bin/python demo.py > /tmp/demo_with.log 2>&1; echo "demo WITH change: exit $?"
git stash -q -- src
PYTHONPATH=$WT/src /venv/bin/python demo.py > /tmp/demo_without.log 2>&1; echo "demo WITHOUT change: exit $?"
git stash pop -q
python3 /tmp/seedtools/baseline_wt.py "$WT" | head -5
