#!/usr/bin/env python3
"""Regenerates the table of DESIGN.md section 8.2 from seeded/*/meta.json."""
import json, os
p = '/verif/DESIGN.md'
s = open(p).read()
head = "| seed | property | needs, in order to manifest | caught by | missed by |\n|---|---|---|---|---|\n"
a = s.index(head) + len(head)
b = s.index("\n\n", a)
rows = []
for sid in sorted(os.listdir('/verif/seeded'), key=lambda n: int(n.split('-')[0][1:])):
    m = json.load(open(f'/verif/seeded/{sid}/meta.json'))
    rows.append("| %s | %s | %s | %s | %s |" % (sid, m['breaks_property'], m['needs_to_manifest'].replace('|', '\\|'),
                                             m['caught_by'].replace('|', '\\|'), (m.get('missed_by') or '-').replace('|', '\\|')))
s = s[:a] + "\n".join(rows) + s[b:]
open(p, 'w').write(s)
print(len(rows), "seeds")
